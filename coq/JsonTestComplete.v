From Coq Require Import List NArith ZArith Bool Arith Lia.
Import ListNotations.
From PP Require Import Base Syntax Spec SpecMono SpecLaws SpecEquiv Grammars JsonComplete.

(* JsonTestComplete.v — completeness of tests/grammars/json.pest (json_test_grammar) w.r.t.
   RFC 8259 documents (any top-level value).  Documents, renderings and skeletons are those of
   JsonComplete.v; the fuel-free derived rules (M / MS / F and friends) are reused as well. *)

Open Scope N_scope.

Notation TG := json_test_grammar.

(* ==================================================================================== *)
(* Part 1. The rules of tests/grammars/json.pest                                         *)
(* ==================================================================================== *)

Definition t_digit := ERef 7 None.
Definition t_ws_body := EAlt [EStr [32]; EStr [9]; EStr [13]; EStr [10]].
Definition t_bool_body := EAlt [EStr [116; 114; 117; 101]; EStr [102; 97; 108; 115; 101]].
Definition t_eE := EGrp (EAlt [EStr [69]; EStr [101]]) None.
Definition t_sign := EOpt (EGrp (EAlt [EStr [43]; EStr [45]]) None).
Definition t_exp_body := ESeq [t_eE; t_sign; EPlus t_digit].
Definition t_int_body := EAlt [EStr [48]; ESeq [ERef 9 None; EStar t_digit]].
Definition t_fracexp :=
  EGrp (EAlt [ESeq [EStr [46]; EPlus t_digit; EOpt (ERef 6 None)]; ERef 6 None]) None.
Definition t_number_body := ESeq [EOpt (EStr [45]); ERef 8 None; EOpt t_fracexp].
Definition t_unicode_body := ESeq [EStr [117]; ERepN (ERef 12 None) 4].
Definition t_hex_body := EAlt [ERange 48 57; ERange 97 102; ERange 65 70].
Definition t_escs :=
  EGrp (EAlt [EStr [34]; EStr [92]; EStr [47]; EStr [98]; EStr [102]; EStr [110]; EStr [114];
              EStr [116]; ERef 11 None]) None.
Definition t_escape_body := ESeq [EStr [92]; t_escs].
Definition t_plain := EGrp (ESeq [e_notq; ERef 15 None]) None.
Definition t_escinner := EOpt (EGrp (ESeq [ERef 13 None; ERef 14 None]) None).
Definition t_inner_body := ESeq [EStar t_plain; t_escinner].
Definition t_string_body := ESeq [EStr [34]; ERef 14 None; EStr [34]].
Definition t_value_body :=
  EAlt [ERef 16 None; ERef 10 None; ERef 18 None; ERef 19 None; ERef 5 None; ERef 4 None].
(* the non-empty alternative comes first in this grammar *)
Definition t_coll_body (k op cl : N) : expr :=
  EAlt [ESeq [EStr [op]; ERef k None; EStar (e_more k); EStr [cl]]; ESeq [EStr [op]; EStr [cl]]].
Definition t_pair_body := ESeq [ERef 16 None; EStr [58]; ERef 17 None].
Definition t_json_body := ESeq [ERef 22 None; ERef 17 None; ERef 3 None].

Lemma tk_ws : lookup TG 0 = Some (mkrule 0 true KNormal t_ws_body). Proof. reflexivity. Qed.
Lemma tk_eoi : lookup TG 3 = Some (mkrule 3 false KNormal EEoi). Proof. reflexivity. Qed.
Lemma tk_null : lookup TG 4 = Some (mkrule 4 false KNormal (EStr null_text)). Proof. reflexivity. Qed.
Lemma tk_bool : lookup TG 5 = Some (mkrule 5 false KNormal t_bool_body). Proof. reflexivity. Qed.
Lemma tk_exp : lookup TG 6 = Some (mkrule 6 false KAtomic t_exp_body). Proof. reflexivity. Qed.
Lemma tk_digit : lookup TG 7 = Some (mkrule 7 true KNormal (ERange 48 57)). Proof. reflexivity. Qed.
Lemma tk_int : lookup TG 8 = Some (mkrule 8 false KAtomic t_int_body). Proof. reflexivity. Qed.
Lemma tk_nzdigit : lookup TG 9 = Some (mkrule 9 true KNormal (ERange 49 57)). Proof. reflexivity. Qed.
Lemma tk_number : lookup TG 10 = Some (mkrule 10 false KAtomic t_number_body). Proof. reflexivity. Qed.
Lemma tk_unicode : lookup TG 11 = Some (mkrule 11 false KAtomic t_unicode_body). Proof. reflexivity. Qed.
Lemma tk_hex : lookup TG 12 = Some (mkrule 12 true KNormal t_hex_body). Proof. reflexivity. Qed.
Lemma tk_escape : lookup TG 13 = Some (mkrule 13 false KAtomic t_escape_body). Proof. reflexivity. Qed.
Lemma tk_inner : lookup TG 14 = Some (mkrule 14 false KAtomic t_inner_body). Proof. reflexivity. Qed.
Lemma tk_any : lookup TG 15 = Some (mkrule 15 true KNormal EAny). Proof. reflexivity. Qed.
Lemma tk_string : lookup TG 16 = Some (mkrule 16 false KAtomic t_string_body). Proof. reflexivity. Qed.
Lemma tk_value : lookup TG 17 = Some (mkrule 17 false KNormal t_value_body). Proof. reflexivity. Qed.
Lemma tk_object : lookup TG 18 = Some (mkrule 18 false KNormal (t_coll_body 20 123 125)). Proof. reflexivity. Qed.
Lemma tk_array : lookup TG 19 = Some (mkrule 19 false KNormal (t_coll_body 17 91 93)). Proof. reflexivity. Qed.
Lemma tk_pair : lookup TG 20 = Some (mkrule 20 false KNormal t_pair_body). Proof. reflexivity. Qed.
Lemma tk_json : lookup TG 21 = Some (mkrule 21 false KNormal t_json_body). Proof. reflexivity. Qed.
Lemma tk_soi : lookup TG 22 = Some (mkrule 22 true KNormal ESoi). Proof. reflexivity. Qed.
Lemma t_skip : skip_expr TG = Some (EStar (ERef 0 None)). Proof. reflexivity. Qed.

(* ------------------------------------------------------------------------------------ *)
(* 1a. generic helpers: rule calls, single-character repetitions                         *)
(* ------------------------------------------------------------------------------------ *)

Lemma sp1 a r : match r with [] => True | d :: _ => (d =? a) = false end ->
  strip_prefix [a] r = None.
Proof.
  destruct r as [|d r]; [reflexivity|]. intros H. cbn [strip_prefix]. rewrite N.eqb_sym, H. reflexivity.
Qed.

(* a silent rule contributes what its body contributes *)
Lemma M_sref g c n k b pre x post kids : lookup g n = Some (mkrule n true k b) ->
  M g (rule_ctx c (mkrule n true k b)) (TEval b) pre x post kids ->
  M g c (TEval (ERef n None)) pre x post kids.
Proof.
  intros L H. eapply M_ps; cycle 1.
  - eapply M_ref; [exact L|exact H].
  - reflexivity.
Qed.

(* an atomic rule called in an atomic context yields no pair of its own *)
Lemma M_aref g c n b pre x post kids : lookup g n = Some (mkrule n false KAtomic b) ->
  c_atom c = Atomic ->
  M g (rule_ctx c (mkrule n false KAtomic b)) (TEval b) pre x post kids ->
  M g c (TEval (ERef n None)) pre x post kids.
Proof.
  intros L Hc H. eapply M_ps; cycle 1.
  - eapply M_ref; [exact L|exact H].
  - unfold wrap, visible, mkrule. cbn [r_silent r_kind negb andb]. rewrite Hc. reflexivity.
Qed.

(* an atomic rule called where pairs are visible: one childless pair *)
Lemma M_vref g c n b pre x post : lookup g n = Some (mkrule n false KAtomic b) ->
  c_atom c = NonAtomic ->
  M g (rule_ctx c (mkrule n false KAtomic b)) (TEval b) pre x post [] ->
  M g c (TEval (ERef n None)) pre x post [Pair n (lenN pre) (lenN (pre ++ x)) [] None].
Proof.
  intros L Hc H. eapply M_ps; cycle 1.
  - eapply M_ref; [exact L|exact H].
  - unfold wrap, visible, mkrule. cbn [r_silent r_kind r_name negb andb]. rewrite Hc. reflexivity.
Qed.

Lemma actx c n s b : c_atom (rule_ctx c (mkrule n s KAtomic b)) = Atomic.
Proof. reflexivity. Qed.

Section StarChars.
Variable g : grammar.
Variable c : ctx.
Variable e : expr.
Variable P : N -> bool.
Hypothesis Hc : c_atom c <> NonAtomic.
Hypothesis He : forall pre d post, P d = true -> M g c (TEval e) pre [d] post [].

Lemma MT_chars_gen : forall ds pre post, forallb P ds = true ->
  (forall pre', F g c (TEval e) pre' post) -> M g c (TStar e) pre ds post [].
Proof.
  induction ds as [|d ds IH]; intros pre post H Hf.
  - apply MT_stop_a; [exact Hc|apply Hf].
  - cbn [forallb] in H. apply andb_prop in H. destruct H as [H1 H2].
    eapply M_ps; cycle 1.
    + apply (MT_go_a g c e pre [d] ds post); [exact Hc|apply He; exact H1|].
      apply IH; assumption.
    + reflexivity.
Qed.

Lemma M_chars_gen ds pre post : forallb P ds = true ->
  (forall pre', F g c (TEval e) pre' post) -> M g c (TEval (EStar e)) pre ds post [].
Proof.
  intros H Hf. destruct ds as [|d ds].
  - apply M_star_stop. apply Hf.
  - cbn [forallb] in H. apply andb_prop in H. destruct H as [H1 H2].
    eapply M_ps; cycle 1.
    + apply (M_star_go g c e pre [d] ds post); [apply He; exact H1|].
      apply MT_chars_gen; assumption.
    + reflexivity.
Qed.

End StarChars.

(* ------------------------------------------------------------------------------------ *)
(* 1b. numbers                                                                           *)
(* ------------------------------------------------------------------------------------ *)

Lemma M_tdigit c pre d post : is_digit d = true -> M TG c (TEval t_digit) pre [d] post [].
Proof. intros H. eapply M_sref; [exact tk_digit|]. apply M_range. exact H. Qed.

Lemma F_tdigit c pre r : hdP nf0 r = true -> F TG c (TEval t_digit) pre r.
Proof.
  intros H. eapply F_ref; [exact tk_digit|]. apply F_range.
  destruct r as [|d r]; [exact I|]. cbn [hdP] in H. apply negb_true_iff in H. exact H.
Qed.

Lemma M_tdigits c ds pre post : c_atom c <> NonAtomic -> forallb is_digit ds = true ->
  hdP nf0 post = true -> M TG c (TEval (EStar t_digit)) pre ds post [].
Proof.
  intros Hc H Hp. apply (M_chars_gen TG c t_digit is_digit Hc); [|exact H|].
  - intros pre0 d post0. apply M_tdigit.
  - intros pre'. apply F_tdigit. exact Hp.
Qed.

Lemma M_tdigits1 c ds pre post : c_atom c <> NonAtomic -> wf_digits ds = true ->
  hdP nf0 post = true -> M TG c (TEval (EPlus t_digit)) pre ds post [].
Proof.
  unfold wf_digits. intros Hc H Hp. destruct ds as [|d ds]; [discriminate|].
  cbn [nonempty andb forallb] in H. apply andb_prop in H. destruct H as [H1 H2].
  apply M_plus. apply M_seq. eapply M_ps; cycle 1.
  - apply (Ms_cons_a TG c t_digit (EStar t_digit) [] pre [d] ds post);
      [exact Hc|apply M_tdigit; exact H1|].
    apply Ms_one. apply M_tdigits; assumption.
  - reflexivity.
Qed.

Lemma M_tint_body c i pre post : c_atom c = Atomic -> wf_int i = true -> hdP nf0 post = true ->
  M TG c (TEval t_int_body) pre i post [].
Proof.
  intros Hc H Hp. pose proof (Hna c Hc) as Hn.
  destruct i as [|d ds]; [discriminate|]. cbn [wf_int] in H.
  unfold t_int_body. apply M_alt. destruct (N.eqb_spec d 48) as [->|Hd].
  - destruct ds; [|discriminate]. apply Ma_first. apply M_str.
  - apply andb_prop in H. destruct H as [H1 H2]. apply Ma_next.
    + apply F_str. cbn [strip_prefix app]. destruct (N.eqb_spec 48 d); [congruence|reflexivity].
    + apply Ma_first. apply M_seq. eapply M_ps; cycle 1.
      * apply (Ms_cons_a TG c (ERef 9 None) (EStar t_digit) [] pre [d] ds post); [exact Hn| |].
        -- eapply M_sref; [exact tk_nzdigit|]. apply M_range. exact H1.
        -- apply Ms_one. apply M_tdigits; assumption.
      * reflexivity.
Qed.

Lemma M_tint c i pre post : c_atom c = Atomic -> wf_int i = true -> hdP nf0 post = true ->
  M TG c (TEval (ERef 8 None)) pre i post [].
Proof.
  intros Hc H Hp. apply (M_aref TG c 8 _ pre i post [] tk_int Hc).
  apply M_tint_body; [apply actx|exact H|exact Hp].
Qed.

(* what may not follow: e / E *)
Definition noe (d : N) : bool := negb (d =? 101) && negb (d =? 69).

Lemma F_texp c pre r : hdP noe r = true -> F TG c (TEval (ERef 6 None)) pre r.
Proof.
  intros H. eapply F_ref; [exact tk_exp|]. cbn [r_body mkrule]. unfold t_exp_body.
  apply F_seq. apply Fs_first. unfold t_eE. apply F_grp. apply F_alt.
  assert (K : match r with [] => True | d :: _ => (d =? 69) = false /\ (d =? 101) = false end).
  { destruct r as [|d r]; [exact I|]. cbn [hdP] in H. unfold noe in H.
    apply andb_prop in H. destruct H as [A B]. apply negb_true_iff in A. apply negb_true_iff in B.
    split; assumption. }
  apply Fa_cons; [|apply Fa_cons; [|apply Fa_nil]]; apply F_str; apply sp1;
    (destruct r as [|d r]; [exact I|apply K]).
Qed.

Definition sg_text (sg : option N) : text := match sg with Some s => [s] | None => [] end.

Lemma M_texp_body c e sg ds pre post : c_atom c = Atomic ->
  ((e =? 101) || (e =? 69)) && match sg with Some s => (s =? 43) || (s =? 45) | None => true end
    && wf_digits ds = true ->
  hdP nf0 post = true ->
  M TG c (TEval t_exp_body) pre (e :: match sg with Some s => [s] | None => [] end ++ ds) post [].
Proof.
  intros Hc H Hp. pose proof (Hna c Hc) as Hn.
  apply andb_prop in H. destruct H as [H H3]. apply andb_prop in H. destruct H as [H1 H2].
  assert (Hd : exists d ds', ds = d :: ds' /\ is_digit d = true).
  { unfold wf_digits in H3. destruct ds as [|d ds']; [discriminate|]. exists d, ds'.
    split; [reflexivity|]. cbn in H3. apply andb_prop in H3. apply H3. }
  destruct Hd as [d0 [ds' [Eds Hd0]]].
  unfold t_exp_body. apply M_seq. eapply M_ps; cycle 1.
  - apply (Ms_cons_a TG c t_eE t_sign [EPlus t_digit] pre [e]
             (match sg with Some s => [s] | None => [] end ++ ds) post); [exact Hn| |].
    + unfold t_eE. apply M_grp. apply M_alt. destruct (N.eqb_spec e 69) as [->|He].
      * apply Ma_first. apply M_str.
      * rewrite orb_false_r in H1. apply N.eqb_eq in H1. subst e.
        apply Ma_next; [apply F_str; reflexivity|]. apply Ma_first. apply M_str.
    + apply (Ms_cons_a TG c t_sign (EPlus t_digit) [] (pre ++ [e])
               (match sg with Some s => [s] | None => [] end) ds post); [exact Hn| |].
      * unfold t_sign. destruct sg as [s|].
        -- apply M_opt_some. apply M_grp. apply M_alt.
           destruct (N.eqb_spec s 43) as [->|Hs].
           ++ apply Ma_first. apply M_str.
           ++ cbn [orb] in H2. apply N.eqb_eq in H2. subst s. apply Ma_next.
              ** apply F_str. reflexivity.
              ** apply Ma_first. apply M_str.
        -- apply M_opt_none. apply F_grp. apply F_alt. subst ds.
           destruct (digit_props d0 Hd0) as [A [B [C D]]].
           apply Fa_cons; [|apply Fa_cons; [|apply Fa_nil]]; apply F_str; cbn [strip_prefix app].
           ++ destruct (N.eqb_spec 43 d0); [lia|reflexivity].
           ++ rewrite A. reflexivity.
      * apply Ms_one. apply M_tdigits1; assumption.
  - reflexivity.
Qed.

Lemma M_texp c e sg ds pre post : c_atom c = Atomic ->
  ((e =? 101) || (e =? 69)) && match sg with Some s => (s =? 43) || (s =? 45) | None => true end
    && wf_digits ds = true ->
  hdP nf0 post = true ->
  M TG c (TEval (ERef 6 None)) pre (e :: match sg with Some s => [s] | None => [] end ++ ds) post [].
Proof.
  intros Hc H Hp. apply (M_aref TG c 6 _ pre _ post [] tk_exp Hc).
  apply M_texp_body; [apply actx|exact H|exact Hp].
Qed.

Lemma nf2_parts post : hdP nf2 post = true ->
  hdP nf0 post = true /\ hdP noe post = true /\
  match post with [] => True | d :: _ => (d =? 46) = false end.
Proof.
  destruct post as [|d post]; [repeat split|]. cbn [hdP]. unfold nf2, nf0, noe. intros H.
  apply andb_prop in H. destruct H as [H H4]. apply andb_prop in H. destruct H as [H H3].
  apply andb_prop in H. destruct H as [H1 H2]. rewrite H1, H3, H4.
  apply negb_true_iff in H2. repeat split. exact H2.
Qed.

Lemma eE_facts e : (e =? 101) || (e =? 69) = true -> nf0 e = true /\ (46 =? e) = false.
Proof.
  intros H. apply orb_prop in H. destruct H as [H|H]; apply N.eqb_eq in H; subst e; split; reflexivity.
Qed.

(* ("." ~ ASCII_DIGIT+ ~ exp? | exp)? *)
Lemma M_tfracexp c n pre post : c_atom c = Atomic ->
  match frac n with Some ds => wf_digits ds = true | None => True end ->
  match expo n with
  | Some (e, sg, ds) =>
      ((e =? 101) || (e =? 69)) &&
      match sg with Some s => (s =? 43) || (s =? 45) | None => true end &&
      wf_digits ds = true
  | None => True
  end -> hdP nf2 post = true ->
  M TG c (TEval (EOpt t_fracexp)) pre (frac_text n ++ expo_text n) post [].
Proof.
  intros Hc Hf He Hp. pose proof (Hna c Hc) as Hn.
  destruct (nf2_parts post Hp) as [Hp0 [Hpe Hpd]].
  unfold frac_text, expo_text.
  destruct (frac n) as [fs|]; destruct (expo n) as [[[e sg] es]|].
  - (* .digits exp *)
    assert (He1 : (e =? 101) || (e =? 69) = true).
    { apply andb_prop in He. destruct He as [He _]. apply andb_prop in He. apply He. }
    destruct (eE_facts e He1) as [E0 E46].
    apply M_opt_some. unfold t_fracexp. apply M_grp. apply M_alt. apply Ma_first. apply M_seq.
    eapply M_cast;
      [apply (Ms_cons_a TG c (EStr [46]) (EPlus t_digit) [EOpt (ERef 6 None)] pre [46]
                (fs ++ e :: match sg with Some s => [s] | None => [] end ++ es) post [] []);
        [exact Hn|apply M_str|
         apply (Ms_cons_a TG c (EPlus t_digit) (EOpt (ERef 6 None)) [] (pre ++ [46]) fs
                  (e :: match sg with Some s => [s] | None => [] end ++ es) post [] []);
           [exact Hn|apply M_tdigits1; [exact Hn|exact Hf|exact E0]|
            apply Ms_one; apply M_opt_some; apply M_texp; [exact Hc|exact He|exact Hp0]]]
      |assoc..].
  - (* .digits *)
    apply M_opt_some. unfold t_fracexp. apply M_grp. apply M_alt. apply Ma_first. apply M_seq.
    eapply M_cast;
      [apply (Ms_cons_a TG c (EStr [46]) (EPlus t_digit) [EOpt (ERef 6 None)] pre [46]
                (fs ++ []) post [] []);
        [exact Hn|apply M_str|
         apply (Ms_cons_a TG c (EPlus t_digit) (EOpt (ERef 6 None)) [] (pre ++ [46]) fs
                  [] post [] []);
           [exact Hn|apply M_tdigits1; [exact Hn|exact Hf|exact Hp0]|
            apply Ms_one; apply M_opt_none; apply F_texp; exact Hpe]]
      |assoc..].
  - (* exp *)
    assert (He1 : (e =? 101) || (e =? 69) = true).
    { apply andb_prop in He. destruct He as [He _]. apply andb_prop in He. apply He. }
    destruct (eE_facts e He1) as [E0 E46].
    cbn [app]. apply M_opt_some. unfold t_fracexp. apply M_grp. apply M_alt. apply Ma_next.
    + apply F_seq. apply Fs_first. apply F_str. cbn [app strip_prefix]. rewrite E46. reflexivity.
    + apply Ma_first. apply M_texp; [exact Hc|exact He|exact Hp0].
  - (* nothing *)
    cbn [app]. apply M_opt_none. unfold t_fracexp. apply F_grp. apply F_alt.
    apply Fa_cons; [|apply Fa_cons; [|apply Fa_nil]].
    + apply F_seq. apply Fs_first. apply F_str. apply sp1. exact Hpd.
    + apply F_texp. exact Hpe.
Qed.

Lemma M_tnumber_body c n pre post : c_atom c = Atomic -> wf_jnum n = true -> hdP nf2 post = true ->
  M TG c (TEval t_number_body) pre (num_text n) post [].
Proof.
  unfold wf_jnum. intros Hc H Hp. pose proof (Hna c Hc) as Hn.
  apply andb_prop in H. destruct H as [H He]. apply andb_prop in H. destruct H as [Hi Hf].
  assert (He' : match expo n with
                | Some (e, sg, ds) =>
                    ((e =? 101) || (e =? 69)) &&
                    match sg with Some s => (s =? 43) || (s =? 45) | None => true end &&
                    wf_digits ds = true
                | None => True end).
  { destruct (expo n) as [[[e sg] ds]|]; [exact He|exact I]. }
  assert (Hf' : match frac n with Some ds => wf_digits ds = true | None => True end).
  { destruct (frac n); [exact Hf|exact I]. }
  assert (H1 : hdP nf1 (expo_text n ++ post) = true).
  { apply hd_expo; [|exact Hp]. destruct (expo n) as [[[e sg] ds]|]; [|exact I].
    apply andb_prop in He'. destruct He' as [He' _]. apply andb_prop in He'. apply He'. }
  assert (H0 : hdP nf0 (frac_text n ++ expo_text n ++ post) = true) by (apply hd_frac; exact H1).
  unfold t_number_body, num_text. apply M_seq. eapply M_ps; cycle 1.
  - apply (Ms_cons_a TG c (EOpt (EStr [45])) (ERef 8 None) [EOpt t_fracexp] pre (sign_text n)
             (int_part n ++ frac_text n ++ expo_text n) post); [exact Hn| |].
    + unfold sign_text. destruct (neg n).
      * apply M_opt_some. apply M_str.
      * apply M_opt_none. apply F_str. destruct (wf_int_head _ Hi) as [d [ds [-> Hd]]].
        cbn [app strip_prefix]. destruct (digit_props d Hd) as [A _]. rewrite A. reflexivity.
    + apply (Ms_cons_a TG c (ERef 8 None) (EOpt t_fracexp) [] (pre ++ sign_text n) (int_part n)
               (frac_text n ++ expo_text n) post); [exact Hn| |].
      * rewrite <- app_assoc. apply M_tint; assumption.
      * apply Ms_one. apply M_tfracexp; assumption.
  - reflexivity.
Qed.

(* `number` called where pairs are visible: one childless pair *)
Lemma M_tnumber c n pre post : c_atom c = NonAtomic -> wf_jnum n = true -> hdP nf2 post = true ->
  M TG c (TEval (ERef 10 None)) pre (num_text n) post
    [Pair 10 (lenN pre) (lenN (pre ++ num_text n)) [] None].
Proof.
  intros Hc H Hp. apply (M_vref TG c 10 _ pre _ post tk_number Hc).
  apply M_tnumber_body; [apply actx|exact H|exact Hp].
Qed.

Lemma F_tnumber c pre d r : is_digit d = false -> (d =? 45) = false ->
  F TG c (TEval (ERef 10 None)) pre (d :: r).
Proof.
  intros Hd H. eapply F_ref; [exact tk_number|]. cbn [r_body mkrule]. unfold t_number_body.
  set (c1 := rule_ctx c _). assert (H1 : c_atom c1 <> NonAtomic) by (cbn; discriminate).
  apply F_seq. apply (Fs_later_a TG c1 (EOpt (EStr [45])) (ERef 8 None) _ pre [] (d :: r) []); [exact H1| |].
  - apply M_opt_none. apply F_str. cbn [strip_prefix]. rewrite N.eqb_sym, H. reflexivity.
  - rewrite app_nil_r. apply Fs_first. eapply F_ref; [exact tk_int|]. cbn [r_body mkrule].
    unfold t_int_body. apply F_alt.
    assert (R : forall lo, 48 <= lo -> (lo <=? d) && (d <=? 57) = false).
    { intros lo Hlo. unfold is_digit in Hd. apply andb_false_iff in Hd. apply andb_false_iff.
      destruct Hd as [Hd|Hd]; [left|right; exact Hd].
      apply N.leb_gt in Hd. apply N.leb_gt. lia. }
    apply Fa_cons; [|apply Fa_cons; [|apply Fa_nil]].
    + apply F_str. cbn [strip_prefix]. destruct (N.eqb_spec 48 d) as [<-|_]; [discriminate|reflexivity].
    + apply F_seq. apply Fs_first. eapply F_ref; [exact tk_nzdigit|]. apply F_range. apply R. lia.
Qed.

(* ------------------------------------------------------------------------------------ *)
(* 1c. strings                                                                           *)
(* ------------------------------------------------------------------------------------ *)

Lemma M_thex c pre h post : is_hex h = true -> M TG c (TEval (ERef 12 None)) pre [h] post [].
Proof.
  intros H. eapply M_sref; [exact tk_hex|]. unfold t_hex_body. apply M_alt.
  unfold is_hex, is_digit in H.
  destruct ((48 <=? h) && (h <=? 57))%bool eqn:E1.
  - apply Ma_first. apply M_range. exact E1.
  - apply Ma_next; [apply F_range; exact E1|].
    destruct ((97 <=? h) && (h <=? 102))%bool eqn:E2.
    + apply Ma_first. apply M_range. exact E2.
    + apply Ma_next; [apply F_range; exact E2|].
      apply Ma_first. apply M_range. exact H.
Qed.

Lemma T_notq_ok c pre d post : (d =? 34) = false -> (d =? 92) = false ->
  M TG c (TEval e_notq) pre [] (d :: post) [].
Proof.
  intros H1 H2. apply M_not. apply F_grp. apply F_alt.
  apply Fa_cons; [|apply Fa_cons; [|apply Fa_nil]]; apply F_str; cbn [strip_prefix];
    rewrite N.eqb_sym; [rewrite H1|rewrite H2]; reflexivity.
Qed.

Lemma T_notq_fail c pre d post : (d =? 34) || (d =? 92) = true ->
  F TG c (TEval e_notq) pre (d :: post).
Proof.
  intros H. destruct (N.eqb_spec d 34) as [->|H1].
  - apply (F_not TG c _ pre [34] post []). apply M_grp. apply M_alt. apply Ma_first. apply M_str.
  - cbn [orb] in H. apply N.eqb_eq in H. subst d.
    apply (F_not TG c _ pre [92] post []). apply M_grp. apply M_alt.
    apply Ma_next; [apply F_str; reflexivity|]. apply Ma_first. apply M_str.
Qed.

Definition is_plain (d : N) : bool := negb (d =? 34) && negb (d =? 92).

(* not (quote | backslash) ~ ANY *)
Lemma M_tplain c pre d post : c_atom c <> NonAtomic -> is_plain d = true ->
  M TG c (TEval t_plain) pre [d] post [].
Proof.
  intros Hc H. unfold is_plain in H. apply andb_prop in H. destruct H as [H1 H2].
  apply negb_true_iff in H1. apply negb_true_iff in H2.
  unfold t_plain. apply M_grp. apply M_seq. eapply M_ps; cycle 1.
  - apply (Ms_cons_a TG c e_notq (ERef 15 None) [] pre [] [d] post);
      [exact Hc|apply T_notq_ok; assumption|].
    rewrite app_nil_r. apply Ms_one. eapply M_sref; [exact tk_any|]. apply M_any.
  - reflexivity.
Qed.

Lemma F_tplain c pre d post : (d =? 34) || (d =? 92) = true -> F TG c (TEval t_plain) pre (d :: post).
Proof.
  intros H. unfold t_plain. apply F_grp. apply F_seq. apply Fs_first. apply T_notq_fail. exact H.
Qed.

Lemma M_tplains c ps pre d post : c_atom c <> NonAtomic -> forallb is_plain ps = true ->
  (d =? 34) || (d =? 92) = true ->
  M TG c (TEval (EStar t_plain)) pre ps (d :: post) [].
Proof.
  intros Hc H Hd. apply (M_chars_gen TG c t_plain is_plain Hc); [|exact H|].
  - intros pre0 d0 post0. apply M_tplain. exact Hc.
  - intros pre'. apply F_tplain. exact Hd.
Qed.

Definition nonplain (j : jchar) : Prop := match j with JPlain _ => False | _ => True end.

Lemma M_tunicode_body c h1 h2 h3 h4 pre post : c_atom c = Atomic ->
  is_hex h1 && is_hex h2 && is_hex h3 && is_hex h4 = true ->
  M TG c (TEval t_unicode_body) pre [117; h1; h2; h3; h4] post [].
Proof.
  intros Hc H. pose proof (Hna c Hc) as Hn.
  apply andb_prop in H. destruct H as [H H4]. apply andb_prop in H. destruct H as [H H3].
  apply andb_prop in H. destruct H as [H1 H2].
  unfold t_unicode_body. apply M_seq. eapply M_ps; cycle 1.
  - apply (Ms_cons_a TG c (EStr [117]) (ERepN (ERef 12 None) 4) [] pre [117] [h1; h2; h3; h4] post);
      [exact Hn|apply M_str|].
    apply Ms_one. apply M_repn. cbn [repeat]. apply M_seq.
    apply (Ms_cons_a TG c (ERef 12 None) (ERef 12 None) _ _ [h1] [h2; h3; h4] post);
      [exact Hn|apply M_thex; exact H1|].
    apply (Ms_cons_a TG c (ERef 12 None) (ERef 12 None) _ _ [h2] [h3; h4] post);
      [exact Hn|apply M_thex; exact H2|].
    apply (Ms_cons_a TG c (ERef 12 None) (ERef 12 None) _ _ [h3] [h4] post);
      [exact Hn|apply M_thex; exact H3|].
    apply Ms_one. apply M_thex. exact H4.
  - reflexivity.
Qed.

Lemma M_tescape_body c j pre post : c_atom c = Atomic -> wf_jchar j = true -> nonplain j ->
  M TG c (TEval t_escape_body) pre (jchar_text j) post [].
Proof.
  intros Hc H Hj. pose proof (Hna c Hc) as Hn.
  destruct j as [ch|ch|h1 h2 h3 h4]; [contradiction| |]; cbn [jchar_text wf_jchar] in *.
  - unfold t_escape_body. apply M_seq. eapply M_ps; cycle 1.
    + apply (Ms_cons_a TG c (EStr [92]) t_escs [] pre [92] [ch] post); [exact Hn|apply M_str|].
      apply Ms_one. unfold t_escs. apply M_grp. apply M_alt.
      cbn [memN] in H.
      repeat match type of H with
      | (?a =? ?b) || _ = true =>
          destruct (N.eqb_spec a b) as [->|_];
          [ repeat first [ apply Ma_first; apply M_str | apply Ma_next; [apply F_str; reflexivity|] ]
          | cbn [orb] in H ]
      end.
      discriminate.
    + reflexivity.
  - unfold t_escape_body. apply M_seq. eapply M_ps; cycle 1.
    + apply (Ms_cons_a TG c (EStr [92]) t_escs [] pre [92] [117; h1; h2; h3; h4] post);
        [exact Hn|apply M_str|].
      apply Ms_one. unfold t_escs. apply M_grp. apply M_alt.
      do 8 (apply Ma_next; [apply F_str; reflexivity|]).
      apply Ma_first. apply (M_aref TG c 11 _ _ _ post [] tk_unicode Hc).
      apply M_tunicode_body; [apply actx|exact H].
    + reflexivity.
Qed.

Lemma M_tescape c j pre post : c_atom c = Atomic -> wf_jchar j = true -> nonplain j ->
  M TG c (TEval (ERef 13 None)) pre (jchar_text j) post [].
Proof.
  intros Hc H Hj. apply (M_aref TG c 13 _ pre _ post [] tk_escape Hc).
  apply M_tescape_body; [apply actx|exact H|exact Hj].
Qed.

Lemma F_tescape c pre d r : (d =? 92) = false -> F TG c (TEval (ERef 13 None)) pre (d :: r).
Proof.
  intros H. eapply F_ref; [exact tk_escape|]. cbn [r_body mkrule]. unfold t_escape_body.
  apply F_seq. apply Fs_first. apply F_str. apply sp1. exact H.
Qed.

Lemma nonplain_head j : nonplain j -> exists r, jchar_text j = 92 :: r.
Proof. destruct j; [contradiction| |]; intros _; eexists; reflexivity. Qed.

(* inner = (plain)* ~ (escape ~ inner)? : one unfolding at an escape *)
Lemma inner_step c j s' ps pre post : c_atom c = Atomic -> wf_jchar j = true -> nonplain j ->
  forallb is_plain ps = true ->
  (forall c' pre', c_atom c' = Atomic ->
     M TG c' (TEval t_inner_body) pre' (chars_text s') (34 :: post) []) ->
  M TG c (TEval t_inner_body) pre (ps ++ jchar_text j ++ chars_text s') (34 :: post) [].
Proof.
  intros Hc Hj Hnp Hps IH. pose proof (Hna c Hc) as Hn.
  destruct (nonplain_head j Hnp) as [jr Ej].
  unfold t_inner_body. apply M_seq.
  eapply M_cast;
    [apply (Ms_cons_a TG c (EStar t_plain) t_escinner [] pre ps (jchar_text j ++ chars_text s')
              (34 :: post) [] []);
      [exact Hn
      |rewrite Ej; apply M_tplains; [exact Hn|exact Hps|reflexivity]
      |apply Ms_one; unfold t_escinner; apply M_opt_some; apply M_grp; apply M_seq;
       apply (Ms_cons_a TG c (ERef 13 None) (ERef 14 None) [] (pre ++ ps) (jchar_text j)
                (chars_text s') (34 :: post) [] []);
         [exact Hn|apply M_tescape; assumption|
          apply Ms_one; apply (M_aref TG c 14 _ _ _ (34 :: post) [] tk_inner Hc);
          apply IH; apply actx]]
    |assoc..].
Qed.

Lemma M_tinner_gen : forall s ps c pre post, c_atom c = Atomic ->
  forallb wf_jchar s = true -> forallb is_plain ps = true ->
  M TG c (TEval t_inner_body) pre (ps ++ chars_text s) (34 :: post) [].
Proof.
  induction s as [|j s IH]; intros ps c pre post Hc Hs Hps.
  - pose proof (Hna c Hc) as Hn. cbn [chars_text]. unfold t_inner_body. apply M_seq.
    eapply M_cast;
      [apply (Ms_cons_a TG c (EStar t_plain) t_escinner [] pre ps [] (34 :: post) [] []);
        [exact Hn
        |apply M_tplains; [exact Hn|exact Hps|reflexivity]
        |apply Ms_one; unfold t_escinner; apply M_opt_none; apply F_grp; apply F_seq;
         apply Fs_first; apply F_tescape; reflexivity]
      |assoc..].
  - cbn [forallb] in Hs. apply andb_prop in Hs. destruct Hs as [Hj Hs]. cbn [chars_text].
    destruct j as [ch|ch|h1 h2 h3 h4].
    + eapply M_x; [|apply (IH (ps ++ [ch]) c pre post Hc Hs)].
      * cbn [jchar_text]. rewrite <- app_assoc. reflexivity.
      * rewrite forallb_app, Hps. cbn [forallb wf_jchar] in *. unfold is_plain. rewrite Hj. reflexivity.
    + apply inner_step; [exact Hc|exact Hj|exact I|exact Hps|].
      intros c' pre' Hc'. exact (IH [] c' pre' post Hc' Hs eq_refl).
    + apply inner_step; [exact Hc|exact Hj|exact I|exact Hps|].
      intros c' pre' Hc'. exact (IH [] c' pre' post Hc' Hs eq_refl).
Qed.

Lemma M_tstring_body c s pre post : c_atom c = Atomic -> forallb wf_jchar s = true ->
  M TG c (TEval t_string_body) pre (str_text s) post [].
Proof.
  intros Hc H. pose proof (Hna c Hc) as Hn. unfold t_string_body, str_text. apply M_seq.
  eapply M_ps; cycle 1.
  - apply (Ms_cons_a TG c (EStr [34]) (ERef 14 None) [EStr [34]] pre [34] (chars_text s ++ [34]) post);
      [exact Hn|apply M_str|].
    apply (Ms_cons_a TG c (ERef 14 None) (EStr [34]) [] (pre ++ [34]) (chars_text s) [34] post);
      [exact Hn| |apply Ms_one; apply M_str].
    apply (M_aref TG c 14 _ _ _ _ [] tk_inner Hc).
    exact (M_tinner_gen s [] _ (pre ++ [34]) post (actx c 14 false t_inner_body) H eq_refl).
  - reflexivity.
Qed.

(* `string` called where pairs are visible: one childless pair (string is atomic) *)
Lemma M_tstring c s pre post : c_atom c = NonAtomic -> forallb wf_jchar s = true ->
  M TG c (TEval (ERef 16 None)) pre (str_text s) post
    [Pair 16 (lenN pre) (lenN (pre ++ str_text s)) [] None].
Proof.
  intros Hc H. apply (M_vref TG c 16 _ pre _ post tk_string Hc).
  apply M_tstring_body; [apply actx|exact H].
Qed.

Lemma F_tstring c pre d r : (d =? 34) = false -> F TG c (TEval (ERef 16 None)) pre (d :: r).
Proof.
  intros H. eapply F_ref; [exact tk_string|]. apply F_seq. apply Fs_first. apply F_str.
  apply sp1. exact H.
Qed.

(* ------------------------------------------------------------------------------------ *)
(* 1d. implicit whitespace                                                               *)
(* ------------------------------------------------------------------------------------ *)

Lemma M_tws1 c pre d post : is_ws d = true -> M TG c (TEval (ERef 0 None)) pre [d] post [].
Proof.
  intros H. eapply M_sref; [exact tk_ws|]. unfold t_ws_body. apply M_alt.
  destruct (is_ws_cases d H) as [-> | [-> | [-> | ->]]];
    repeat first [ apply Ma_first; apply M_str | apply Ma_next; [apply F_str; reflexivity|] ].
Qed.

Lemma F_tws1 c pre r : hdP nows r = true -> F TG c (TEval (ERef 0 None)) pre r.
Proof.
  intros H. eapply F_ref; [exact tk_ws|]. cbn [r_body mkrule]. unfold t_ws_body. apply F_alt.
  assert (K : forall a, is_ws a = true -> strip_prefix [a] r = None).
  { intros a Ha. destruct r as [|d r]; [reflexivity|]. cbn [strip_prefix hdP] in *.
    destruct (N.eqb_spec a d) as [->|_]; [|reflexivity].
    unfold nows in H. rewrite Ha in H. discriminate. }
  repeat (apply Fa_cons; [apply F_str; apply K; reflexivity|]). apply Fa_nil.
Qed.

Lemma M_twsstar c w pre post : c_atom c <> NonAtomic -> ws w -> hdP nows post = true ->
  M TG c (TEval (EStar (ERef 0 None))) pre w post [].
Proof.
  intros Hc H Hp. apply (M_chars_gen TG c (ERef 0 None) is_ws Hc); [|exact H|].
  - intros pre0 d post0. apply M_tws1.
  - intros pre'. apply F_tws1. exact Hp.
Qed.

(* in a non-atomic context, skip consumes exactly a maximal run of whitespace *)
Lemma MS_tws c pre w post : c_atom c = NonAtomic -> ws w -> hdP nows post = true ->
  MS TG c pre w post.
Proof.
  intros Hc Hw Hp. unfold MS. eapply SKo_expr; [exact Hc|exact t_skip|].
  apply M_twsstar; [cbn; discriminate|exact Hw|exact Hp].
Qed.

(* ------------------------------------------------------------------------------------ *)
(* 1e. rule calls from a non-atomic context; the alternatives of `value`                 *)
(* ------------------------------------------------------------------------------------ *)

Lemma M_rule_normal_g g c n s b pre x post kids :
  lookup g n = Some (mkrule n s KNormal b) -> c_atom c = NonAtomic ->
  M g (rctx c n s b) (TEval b) pre x post kids ->
  M g c (TEval (ERef n None)) pre x post
    (if s then kids else [Pair n (lenN pre) (lenN (pre ++ x)) kids None]).
Proof.
  intros L Hc H. eapply M_ps; cycle 1.
  - eapply M_ref; [exact L|]. exact H.
  - unfold wrap, visible, mkrule. cbn [r_silent r_kind r_name]. rewrite Hc. destruct s; reflexivity.
Qed.

Lemma M_tnull c pre post : c_atom c = NonAtomic ->
  M TG c (TEval (ERef 4 None)) pre null_text post [Pair 4 (lenN pre) (lenN (pre ++ null_text)) [] None].
Proof.
  intros Hc. apply (M_rule_normal_g TG c 4 false _ pre null_text post [] tk_null Hc).
  apply M_str.
Qed.

Lemma M_tbool c b pre post : c_atom c = NonAtomic ->
  M TG c (TEval (ERef 5 None)) pre (bool_text b) post
    [Pair 5 (lenN pre) (lenN (pre ++ bool_text b)) [] None].
Proof.
  intros Hc. apply (M_rule_normal_g TG c 5 false _ pre (bool_text b) post [] tk_bool Hc).
  unfold t_bool_body. apply M_alt. destruct b; cbn [bool_text].
  - apply Ma_first. apply M_str.
  - apply Ma_next; [apply F_str; reflexivity|]. apply Ma_first. apply M_str.
Qed.

Lemma F_tcoll n k op cl c pre d r :
  lookup TG n = Some (mkrule n false KNormal (t_coll_body k op cl)) ->
  (d =? op) = false -> F TG c (TEval (ERef n None)) pre (d :: r).
Proof.
  intros L H. eapply F_ref; [exact L|]. cbn [r_body mkrule]. unfold t_coll_body. apply F_alt.
  assert (K : strip_prefix [op] (d :: r) = None) by (apply sp1; exact H).
  apply Fa_cons; [|apply Fa_cons; [|apply Fa_nil]]; apply F_seq; apply Fs_first; apply F_str; exact K.
Qed.

Lemma F_tobject c pre d r : (d =? 123) = false -> F TG c (TEval (ERef 18 None)) pre (d :: r).
Proof. apply (F_tcoll 18 20 123 125 c pre d r tk_object). Qed.

Lemma F_tarray c pre d r : (d =? 91) = false -> F TG c (TEval (ERef 19 None)) pre (d :: r).
Proof. apply (F_tcoll 19 17 91 93 c pre d r tk_array). Qed.

Lemma F_tbool c pre d r : (d =? 116) = false -> (d =? 102) = false ->
  F TG c (TEval (ERef 5 None)) pre (d :: r).
Proof.
  intros H1 H2. eapply F_ref; [exact tk_bool|]. cbn [r_body mkrule]. unfold t_bool_body.
  apply F_alt. apply Fa_cons; [|apply Fa_cons; [|apply Fa_nil]]; apply F_str; cbn [strip_prefix];
    rewrite N.eqb_sym; [rewrite H1|rewrite H2]; reflexivity.
Qed.

Lemma F_tnull c pre d r : (d =? 110) = false -> F TG c (TEval (ERef 4 None)) pre (d :: r).
Proof.
  intros H. eapply F_ref; [exact tk_null|]. cbn [r_body mkrule]. apply F_str.
  unfold null_text. cbn [strip_prefix]. rewrite N.eqb_sym, H. reflexivity.
Qed.

(* no value starts with a closing bracket / brace / comma ... : every alternative fails *)
Lemma F_tvalue c pre d r : vstart d = false -> F TG c (TEval (ERef 17 None)) pre (d :: r).
Proof.
  unfold vstart. intros H.
  repeat (apply orb_false_iff in H; let H' := fresh "V" in destruct H as [H H']).
  eapply F_ref; [exact tk_value|]. cbn [r_body mkrule]. unfold t_value_body. apply F_alt.
  apply Fa_cons; [apply F_tstring; assumption|].
  apply Fa_cons; [apply F_tnumber; assumption|].
  apply Fa_cons; [apply F_tobject; assumption|].
  apply Fa_cons; [apply F_tarray; assumption|].
  apply Fa_cons; [apply F_tbool; assumption|].
  apply Fa_cons; [apply F_tnull; assumption|].
  apply Fa_nil.
Qed.

Lemma F_tpair c pre d r : (d =? 34) = false -> F TG c (TEval (ERef 20 None)) pre (d :: r).
Proof.
  intros H. eapply F_ref; [exact tk_pair|]. cbn [r_body mkrule]. unfold t_pair_body.
  apply F_seq. apply Fs_first. apply F_tstring. exact H.
Qed.

Section TValueAlt.
Variable c : ctx.
Hypothesis Hc : c_atom c = NonAtomic.
Variables (pre x' post : text) (ps : list pair).
Let c1 := rctx c 17 false t_value_body.

Lemma M_tvalue_str :
  M TG c1 (TEval (ERef 16 None)) pre (34 :: x') post ps ->
  M TG c (TEval (ERef 17 None)) pre (34 :: x') post
    [Pair 17 (lenN pre) (lenN (pre ++ 34 :: x')) ps None].
Proof.
  intros H. apply (M_rule_normal_g TG c 17 false _ pre _ post ps tk_value Hc). fold c1.
  unfold t_value_body. apply M_alt. apply Ma_first. exact H.
Qed.

Lemma M_tvalue_num d : (d =? 45) || is_digit d = true ->
  M TG c1 (TEval (ERef 10 None)) pre (d :: x') post ps ->
  M TG c (TEval (ERef 17 None)) pre (d :: x') post
    [Pair 17 (lenN pre) (lenN (pre ++ d :: x')) ps None].
Proof.
  intros Hd H. apply (M_rule_normal_g TG c 17 false _ pre _ post ps tk_value Hc). fold c1.
  unfold t_value_body. apply M_alt.
  assert (A : (d =? 34) = false).
  { apply orb_prop in Hd. destruct Hd as [Hd|Hd].
    - apply N.eqb_eq in Hd. subst d. reflexivity.
    - destruct (digit_props d Hd) as [_ [_ B]]. apply N.eqb_neq; lia. }
  apply Ma_next; [apply F_tstring; exact A|].
  apply Ma_first. exact H.
Qed.

Lemma M_tvalue_obj :
  M TG c1 (TEval (ERef 18 None)) pre (123 :: x') post ps ->
  M TG c (TEval (ERef 17 None)) pre (123 :: x') post
    [Pair 17 (lenN pre) (lenN (pre ++ 123 :: x')) ps None].
Proof.
  intros H. apply (M_rule_normal_g TG c 17 false _ pre _ post ps tk_value Hc). fold c1.
  unfold t_value_body. apply M_alt.
  apply Ma_next; [apply F_tstring; reflexivity|]. apply Ma_next; [apply F_tnumber; reflexivity|].
  apply Ma_first. exact H.
Qed.

Lemma M_tvalue_arr :
  M TG c1 (TEval (ERef 19 None)) pre (91 :: x') post ps ->
  M TG c (TEval (ERef 17 None)) pre (91 :: x') post
    [Pair 17 (lenN pre) (lenN (pre ++ 91 :: x')) ps None].
Proof.
  intros H. apply (M_rule_normal_g TG c 17 false _ pre _ post ps tk_value Hc). fold c1.
  unfold t_value_body. apply M_alt.
  apply Ma_next; [apply F_tstring; reflexivity|]. apply Ma_next; [apply F_tnumber; reflexivity|].
  apply Ma_next; [apply F_tobject; reflexivity|].
  apply Ma_first. exact H.
Qed.

Lemma M_tvalue_bool d : (d =? 116) || (d =? 102) = true ->
  M TG c1 (TEval (ERef 5 None)) pre (d :: x') post ps ->
  M TG c (TEval (ERef 17 None)) pre (d :: x') post
    [Pair 17 (lenN pre) (lenN (pre ++ d :: x')) ps None].
Proof.
  intros Hd H. apply (M_rule_normal_g TG c 17 false _ pre _ post ps tk_value Hc). fold c1.
  unfold t_value_body. apply M_alt.
  assert (A : (d =? 123) = false /\ (d =? 91) = false /\ (d =? 34) = false /\
              is_digit d = false /\ (d =? 45) = false).
  { apply orb_prop in Hd. destruct Hd as [Hd|Hd]; apply N.eqb_eq in Hd; subst d; repeat split. }
  destruct A as [A1 [A2 [A3 [A4 A5]]]].
  apply Ma_next; [apply F_tstring; exact A3|]. apply Ma_next; [apply F_tnumber; assumption|].
  apply Ma_next; [apply F_tobject; exact A1|]. apply Ma_next; [apply F_tarray; exact A2|].
  apply Ma_first. exact H.
Qed.

Lemma M_tvalue_null :
  M TG c1 (TEval (ERef 4 None)) pre (110 :: x') post ps ->
  M TG c (TEval (ERef 17 None)) pre (110 :: x') post
    [Pair 17 (lenN pre) (lenN (pre ++ 110 :: x')) ps None].
Proof.
  intros H. apply (M_rule_normal_g TG c 17 false _ pre _ post ps tk_value Hc). fold c1.
  unfold t_value_body. apply M_alt.
  apply Ma_next; [apply F_tstring; reflexivity|]. apply Ma_next; [apply F_tnumber; reflexivity|].
  apply Ma_next; [apply F_tobject; reflexivity|]. apply Ma_next; [apply F_tarray; reflexivity|].
  apply Ma_next; [apply F_tbool; reflexivity|].
  apply Ma_first. exact H.
Qed.

End TValueAlt.

(* ==================================================================================== *)
(* Part 2. The expected shape of the parse tree                                          *)
(* ==================================================================================== *)

(* `msk_t v k`: k is the tree of v under tests/grammars/json.pest.  Every value is a `value`
   pair (17) with exactly one child: null (4), bool (5), number (10), string (16), object (18)
   or array (19), over the same slice.  string and number are atomic and have no children;
   object children are pair (20) nodes = [string; value]. *)
Inductive msk_t : jv -> sk -> Prop :=
| KT_value v n sl kids : core_t v (SK n sl kids) -> msk_t v (SK 17 sl [SK n sl kids])
with core_t : jv -> sk -> Prop :=
| KT_null : core_t JNull (SK 4 null_text [])
| KT_bool b : core_t (JBool b) (SK 5 (bool_text b) [])
| KT_num n : core_t (JNum n) (SK 10 (num_text n) [])
| KT_str s : core_t (JStr s) (SK 16 (str_text s) [])
| KT_arr vs sl kids :
    renders (JArr vs) sl -> Forall2 msk_t vs kids -> core_t (JArr vs) (SK 19 sl kids)
| KT_obj ms sl kids :
    renders (JObj ms) sl -> Forall2 mmsk_t ms kids -> core_t (JObj ms) (SK 18 sl kids)
with mmsk_t : list jchar * jv -> sk -> Prop :=
| KT_member k v wa wb x kv :
    ws wa -> ws wb -> renders v x -> msk_t v kv ->
    mmsk_t (k, v) (SK 20 (member_text k wa wb x) [SK 16 (str_text k) []; kv]).

(* the result of parsing `input` mirrors document v: ONE pair json (21) spanning the whole
   input, whose children are the tree of v and EOI (3) *)
Definition mirrors_t (input : text) (v : jv) (tree : list pair) : Prop :=
  exists top, map (skel input) tree = [SK 21 input [top; SK 3 [] []]] /\ msk_t v top.

(* ==================================================================================== *)
(* Part 3. Structure: arrays, objects, members                                           *)
(*   open ~ elem ~ ("," ~ elem)* ~ close | open ~ close                                  *)
(* ==================================================================================== *)

Section TColl.
Variables k op cl : N.
Hypothesis cl_nows : nows cl = true.
Hypothesis cl_follow : follow cl = true.
Hypothesis cl_comma : (44 =? cl) = false.
(* the closing character starts no element *)
Hypothesis elem_close : forall c pre post, F TG c (TEval (ERef k None)) pre (cl :: post).
Variable A : Type.
Variable R : A -> sk -> Prop.

Definition telemP (a : A) (xe : text) : Prop :=
  forall c, c_atom c = NonAtomic -> forall input pre post,
  hdP follow post = true -> input = pre ++ xe ++ post ->
  exists pr, M TG c (TEval (ERef k None)) pre xe post [pr] /\ R a (skel input pr).

Definition ttailP (vs : list A) (tl : text) : Prop :=
  forall c, c_atom c = NonAtomic -> forall input pre wl post, ws wl ->
  input = pre ++ tl ++ wl ++ cl :: post ->
  exists kids,
    M TG c (TStar (e_more k)) pre tl (wl ++ cl :: post) kids /\
    (forall e1 pre0 x1 ps1, pre = pre0 ++ x1 ->
       M TG c (TEval e1) pre0 x1 (tl ++ wl ++ cl :: post) ps1 ->
       M TG c (TSeq [e1; EStar (e_more k); EStr [cl]]) pre0 (x1 ++ tl ++ wl ++ [cl]) post (ps1 ++ kids)) /\
    Forall2 R vs (map (skel input) kids).

Lemma F_tmore_close c pre post : F TG c (TEval (e_more k)) pre (cl :: post).
Proof.
  unfold e_more. apply F_grp. apply F_seq. apply Fs_first. apply F_str.
  cbn [strip_prefix]. rewrite cl_comma. reflexivity.
Qed.

Lemma ttail_nil : ttailP [] [].
Proof.
  intros c Hc input pre wl post Hwl Hin. exists []. split; [|split].
  - apply (MT_stop TG c (e_more k) pre wl (cl :: post)).
    + apply MS_tws; [exact Hc|exact Hwl|exact cl_nows].
    + apply F_tmore_close.
  - intros e1 pre0 x1 ps1 -> H1.
    eapply M_cast;
      [apply (Ms_cons TG c e1 (EStar (e_more k)) [EStr [cl]] pre0 x1 wl [cl] post ps1 []);
        [eapply M_cast; [exact H1|assoc..]
        |apply MS_tws; [exact Hc|exact Hwl|exact cl_nows]
        |apply (Ms_cons TG c (EStar (e_more k)) (EStr [cl]) [] _ [] [] [cl] post [] []);
          [apply M_star_stop; apply F_tmore_close
          |apply MS_tws; [exact Hc|reflexivity|exact cl_nows]
          |apply Ms_one; apply M_str]]
      |assoc..].
  - constructor.
Qed.

Lemma ttail_cons a vs w2 w1 xe tl d xe' :
  ws w2 -> ws w1 -> xe = d :: xe' -> nows d = true -> tl_ok tl ->
  telemP a xe -> ttailP vs tl -> ttailP (a :: vs) (w2 ++ [44] ++ w1 ++ xe ++ tl).
Proof.
  intros Hw2 Hw1 Exe Hd Htl Hel IH c Hc input pre wl post Hwl Hin.
  assert (Hf : hdP follow (tl ++ wl ++ cl :: post) = true).
  { apply Htl. apply follow_close; assumption. }
  destruct (Hel c Hc input ((pre ++ w2) ++ [44] ++ w1) (tl ++ wl ++ cl :: post) Hf) as [pr [HelM HR]].
  { rewrite Hin. assoc. }
  destruct (IH c Hc input (pre ++ w2 ++ [44] ++ w1 ++ xe) wl post Hwl) as [kids' [A' [B' C']]].
  { rewrite Hin. assoc. }
  assert (Hxe : hdP nows (xe ++ tl ++ wl ++ cl :: post) = true) by (rewrite Exe; exact Hd).
  assert (Hmore : M TG c (TEval (e_more k)) (pre ++ w2) ([44] ++ w1 ++ xe) (tl ++ wl ++ cl :: post) [pr]).
  { unfold e_more. apply M_grp. apply M_seq.
    apply (Ms_cons TG c (EStr [44]) (ERef k None) [] (pre ++ w2) [44] w1 xe (tl ++ wl ++ cl :: post) [] [pr]).
    - apply M_str.
    - apply MS_tws; [exact Hc|exact Hw1|exact Hxe].
    - apply Ms_one. exact HelM. }
  exists (pr :: kids'). split; [|split].
  - eapply M_cast;
      [apply (MT_go TG c (e_more k) pre w2 ([44] ++ w1 ++ xe) tl (wl ++ cl :: post) [pr] kids');
        [apply MS_tws; [exact Hc|exact Hw2|reflexivity]
        |exact Hmore
        |eapply M_cast; [exact A'|assoc..]]
      |assoc..].
  - intros e1 pre0 x1 ps1 -> H1.
    eapply M_cast;
      [apply (Ms_cons TG c e1 (EStar (e_more k)) [EStr [cl]] pre0 x1 w2
                ((([44] ++ w1 ++ xe) ++ tl) ++ wl ++ [cl]) post ps1 (([pr] ++ kids') ++ []));
        [eapply M_cast; [exact H1|assoc..]
        |apply MS_tws; [exact Hc|exact Hw2|reflexivity]
        |apply (Ms_cons TG c (EStar (e_more k)) (EStr [cl]) [] _ (([44] ++ w1 ++ xe) ++ tl) wl [cl] post
                  ([pr] ++ kids') []);
          [apply (M_star_go TG c (e_more k) _ ([44] ++ w1 ++ xe) tl (wl ++ [cl] ++ post) [pr] kids');
            [eapply M_cast; [exact Hmore|assoc..]
            |eapply M_cast; [exact A'|assoc..]]
          |apply MS_tws; [exact Hc|exact Hwl|exact cl_nows]
          |apply Ms_one; apply M_str]]
      |assoc..].
  - cbn [map]. constructor; [exact HR|exact C'].
Qed.

(* `{ }` / `[ ]`: the first alternative fails at the closing character, the second applies *)
Lemma tcoll_empty c pre w post : c_atom c = NonAtomic -> ws w ->
  M TG c (TEval (t_coll_body k op cl)) pre (op :: w ++ [cl]) post [].
Proof.
  intros Hc Hw. unfold t_coll_body. apply M_alt. apply Ma_next.
  - apply F_seq. eapply F_cast;
      [apply (Fs_later TG c (EStr [op]) (ERef k None) [EStar (e_more k); EStr [cl]] pre [op] w
                (cl :: post) []);
        [apply M_str
        |apply MS_tws; [exact Hc|exact Hw|exact cl_nows]
        |apply Fs_first; apply elem_close]
      |assoc].
  - apply Ma_first. apply M_seq.
    apply (Ms_cons TG c (EStr [op]) (EStr [cl]) [] pre [op] w [cl] post [] []).
    + apply M_str.
    + apply MS_tws; [exact Hc|exact Hw|exact cl_nows].
    + apply Ms_one. apply M_str.
Qed.

Lemma tcoll_cons c a vs w1 xe tl wl d xe' input pre post :
  c_atom c = NonAtomic -> ws w1 -> ws wl ->
  xe = d :: xe' -> nows d = true -> tl_ok tl ->
  telemP a xe -> ttailP vs tl ->
  input = pre ++ (op :: w1 ++ xe ++ tl ++ wl ++ [cl]) ++ post ->
  exists kids,
    M TG c (TEval (t_coll_body k op cl)) pre (op :: w1 ++ xe ++ tl ++ wl ++ [cl]) post kids /\
    Forall2 R (a :: vs) (map (skel input) kids).
Proof.
  intros Hc Hw1 Hwl Exe Hd Htl Hel Htail Hin.
  assert (Hf : hdP follow (tl ++ wl ++ cl :: post) = true).
  { apply Htl. apply follow_close; assumption. }
  destruct (Hel c Hc input (pre ++ [op] ++ w1) (tl ++ wl ++ cl :: post) Hf) as [pr [HelM HR]].
  { rewrite Hin. assoc. }
  destruct (Htail c Hc input ((pre ++ [op] ++ w1) ++ xe) wl post Hwl) as [kids' [A' [B' C']]].
  { rewrite Hin. assoc. }
  exists (pr :: kids'). split.
  - unfold t_coll_body. apply M_alt. apply Ma_first. apply M_seq.
    eapply M_cast;
      [apply (Ms_cons TG c (EStr [op]) (ERef k None) [EStar (e_more k); EStr [cl]] pre [op] w1
                (xe ++ tl ++ wl ++ [cl]) post [] ([pr] ++ kids'));
        [apply M_str
        |apply MS_tws; [exact Hc|exact Hw1|rewrite Exe; exact Hd]
        |apply (B' (ERef k None) (pre ++ [op] ++ w1) xe [pr] eq_refl HelM)]
      |assoc..].
  - cbn [map]. constructor; [exact HR|exact C'].
Qed.

End TColl.

(* ------------------------------------------------------------------------------------ *)
(* arrays, objects and members as instances                                              *)
(* ------------------------------------------------------------------------------------ *)

Lemma tcoll_rule_empty n k op cl c w pre post :
  lookup TG n = Some (mkrule n false KNormal (t_coll_body k op cl)) ->
  negb (is_trivia_name n) = true -> nows cl = true ->
  (forall c pre post, F TG c (TEval (ERef k None)) pre (cl :: post)) ->
  c_atom c = NonAtomic -> ws w ->
  M TG c (TEval (ERef n None)) pre (op :: w ++ [cl]) post
    [Pair n (lenN pre) (lenN (pre ++ op :: w ++ [cl])) [] None].
Proof.
  intros L Hn Hcl Hec Hc Hw.
  apply (M_rule_normal_g TG c n false _ pre _ post [] L Hc).
  apply tcoll_empty; [exact Hcl|exact Hec|apply rctx_na; assumption|exact Hw].
Qed.

Lemma tcoll_rule_cons n k op cl (A : Type) (R : A -> sk -> Prop) c a vs w1 xe tl wl d xe' input pre post :
  lookup TG n = Some (mkrule n false KNormal (t_coll_body k op cl)) ->
  negb (is_trivia_name n) = true -> follow cl = true ->
  c_atom c = NonAtomic -> ws w1 -> ws wl ->
  xe = d :: xe' -> nows d = true -> tl_ok tl ->
  telemP k A R a xe -> ttailP k cl A R vs tl ->
  input = pre ++ (op :: w1 ++ xe ++ tl ++ wl ++ [cl]) ++ post ->
  exists kids,
    M TG c (TEval (ERef n None)) pre (op :: w1 ++ xe ++ tl ++ wl ++ [cl]) post
      [Pair n (lenN pre) (lenN (pre ++ op :: w1 ++ xe ++ tl ++ wl ++ [cl])) kids None] /\
    Forall2 R (a :: vs) (map (skel input) kids).
Proof.
  intros L Hn Hfo Hc Hw1 Hwl Exe Hd Htl Hel Htail Hin.
  destruct (tcoll_cons k op cl Hfo A R (rctx c n false (t_coll_body k op cl)) a vs w1 xe tl wl d xe'
              input pre post (rctx_na _ _ _ _ Hn Hc) Hw1 Hwl Exe Hd Htl Hel Htail Hin)
    as [kids [HM HF]].
  exists kids. split; [|exact HF].
  apply (M_rule_normal_g TG c n false _ pre _ post kids L Hc). exact HM.
Qed.

(* a value / a rule applied to a rendering, anywhere in an input *)
Definition valP_t (v : jv) (x : text) : Prop := telemP 17 jv msk_t v x.

Definition ruleP_t (n : N) (v : jv) (x : text) : Prop :=
  forall c, c_atom c = NonAtomic -> forall input pre post,
  hdP follow post = true -> input = pre ++ x ++ post ->
  exists kids,
    M TG c (TEval (ERef n None)) pre x post [Pair n (lenN pre) (lenN (pre ++ x)) kids None] /\
    core_t v (SK n x (map (skel input) kids)).

(* wrapping the pair of rule n into a `value` pair over the same span *)
Lemma tvalue_of n v d x' :
  (forall c pre post ps, c_atom c = NonAtomic ->
     M TG (rctx c 17 false t_value_body) (TEval (ERef n None)) pre (d :: x') post ps ->
     M TG c (TEval (ERef 17 None)) pre (d :: x') post
       [Pair 17 (lenN pre) (lenN (pre ++ d :: x')) ps None]) ->
  ruleP_t n v (d :: x') -> valP_t v (d :: x').
Proof.
  intros Halt H c Hc input pre post Hf Hin.
  destruct (H (rctx c 17 false t_value_body) (rctx_na c 17 false t_value_body eq_refl Hc)
              input pre post Hf Hin) as [kids [HM HK]].
  eexists. split.
  - apply Halt; [exact Hc|exact HM].
  - cbn [skel map]. rewrite (slice_in input pre _ post Hin). apply KT_value. exact HK.
Qed.

Lemma arr0_rule_t w : ws w -> ruleP_t 19 (JArr []) (91 :: w ++ [93]).
Proof.
  intros Hw c Hc input pre post Hf Hin. exists []. split.
  - apply (tcoll_rule_empty 19 17 91 93 c w pre post tk_array eq_refl eq_refl); [|exact Hc|exact Hw].
    intros c0 pre0 post0. apply F_tvalue. reflexivity.
  - cbn [map]. apply KT_arr; [|constructor]. apply R_arr0. exact Hw.
Qed.

Lemma obj0_rule_t w : ws w -> ruleP_t 18 (JObj []) (123 :: w ++ [125]).
Proof.
  intros Hw c Hc input pre post Hf Hin. exists []. split.
  - apply (tcoll_rule_empty 18 20 123 125 c w pre post tk_object eq_refl eq_refl); [|exact Hc|exact Hw].
    intros c0 pre0 post0. apply F_tpair. reflexivity.
  - cbn [map]. apply KT_obj; [|constructor]. apply R_obj0. exact Hw.
Qed.

Lemma arr_rule_t v vs w1 x tl wl :
  ws w1 -> renders v x -> renders_tail vs tl -> ws wl -> wf_jv v = true ->
  valP_t v x -> ttailP 17 93 jv msk_t vs tl ->
  ruleP_t 19 (JArr (v :: vs)) (91 :: w1 ++ x ++ tl ++ wl ++ [93]).
Proof.
  intros Hw1 Hr Hrt Hwl Hwf Hv Ht c Hc input pre post Hf Hin.
  destruct (renders_hd v x Hr Hwf) as [d [x' [Ex Hd]]].
  destruct (vstart_facts d Hd) as [Hd1 _].
  destruct (tcoll_rule_cons 19 17 91 93 jv msk_t c v vs w1 x tl wl d x' input pre post
              tk_array eq_refl eq_refl Hc Hw1 Hwl Ex Hd1
              (renders_tail_ok _ _ Hrt) Hv Ht Hin) as [kids [HM HF]].
  exists kids. split; [exact HM|]. apply KT_arr; [|exact HF]. apply R_arr; assumption.
Qed.

(* member = string ws : ws value, parsed by rule pair (20) *)
Lemma tmember_elem k v wa wb x :
  forallb wf_jchar k = true -> ws wa -> ws wb -> renders v x -> wf_jv v = true -> valP_t v x ->
  telemP 20 (list jchar * jv) mmsk_t (k, v) (member_text k wa wb x).
Proof.
  intros Hk Hwa Hwb Hr Hwf Hv c Hc input pre post Hf Hin.
  set (c1 := rctx c 20 false t_pair_body).
  assert (Hc1 : c_atom c1 = NonAtomic) by (apply rctx_na; [reflexivity|exact Hc]).
  destruct (renders_hd v x Hr Hwf) as [d [x' [Ex Hd]]].
  destruct (vstart_facts d Hd) as [Hd1 _].
  destruct (Hv c1 Hc1 input (pre ++ str_text k ++ wa ++ [58] ++ wb) post Hf) as [prv [HvM HvK]].
  { rewrite Hin. unfold member_text. assoc. }
  set (prs := Pair 16 (lenN pre) (lenN (pre ++ str_text k)) [] None).
  exists (Pair 20 (lenN pre) (lenN (pre ++ member_text k wa wb x)) [prs; prv] None). split.
  - apply (M_rule_normal_g TG c 20 false t_pair_body pre (member_text k wa wb x) post [prs; prv] tk_pair Hc).
    fold c1. unfold t_pair_body, member_text. apply M_seq.
    apply (Ms_cons TG c1 (ERef 16 None) (EStr [58]) [ERef 17 None] pre (str_text k) wa
             ([58] ++ wb ++ x) post [prs] [prv]).
    + apply M_tstring; [exact Hc1|exact Hk].
    + apply MS_tws; [exact Hc1|exact Hwa|reflexivity].
    + apply (Ms_cons TG c1 (EStr [58]) (ERef 17 None) [] _ [58] wb x post [] [prv]).
      * apply M_str.
      * apply MS_tws; [exact Hc1|exact Hwb|rewrite Ex; exact Hd1].
      * apply Ms_one. eapply M_cast; [exact HvM|assoc..].
  - unfold prs. cbn [skel map]. rewrite (slice_in input pre _ post Hin).
    rewrite (slice_in input pre (str_text k) (wa ++ [58] ++ wb ++ x ++ post)).
    + apply KT_member; assumption.
    + rewrite Hin. unfold member_text. assoc.
Qed.

Lemma obj_rule_t k v ms w1 wa wb x tl wl :
  ws w1 -> ws wa -> ws wb -> renders v x -> renders_mtail ms tl -> ws wl ->
  forallb wf_jchar k = true -> wf_jv v = true ->
  valP_t v x -> ttailP 20 125 (list jchar * jv) mmsk_t ms tl ->
  ruleP_t 18 (JObj ((k, v) :: ms)) (123 :: w1 ++ member_text k wa wb x ++ tl ++ wl ++ [125]).
Proof.
  intros Hw1 Hwa Hwb Hr Hrt Hwl Hk Hwf Hv Ht c Hc input pre post Hf Hin.
  destruct (tcoll_rule_cons 18 20 123 125 _ mmsk_t c (k, v) ms w1 (member_text k wa wb x) tl wl
              34 (chars_text k ++ [34] ++ wa ++ [58] ++ wb ++ x) input pre post
              tk_object eq_refl eq_refl Hc Hw1 Hwl) as [kids [HM HF]].
  - unfold member_text, str_text. assoc.
  - reflexivity.
  - exact (renders_mtail_ok _ _ Hrt).
  - apply tmember_elem; assumption.
  - exact Ht.
  - exact Hin.
  - exists kids. split; [exact HM|]. apply KT_obj; [|exact HF]. apply R_obj; assumption.
Qed.

(* ==================================================================================== *)
(* Part 4. Every rendering of a well-formed value is parsed by `value`                   *)
(* ==================================================================================== *)

Definition Pv_t (v : jv) (x : text) (_ : renders v x) : Prop := wf_jv v = true -> valP_t v x.
Definition Pt_t (vs : list jv) (tl : text) (_ : renders_tail vs tl) : Prop :=
  forallb wf_jv vs = true -> ttailP 17 93 jv msk_t vs tl.
Definition Pm_t (ms : list (list jchar * jv)) (tl : text) (_ : renders_mtail ms tl) : Prop :=
  forallb wfm ms = true -> ttailP 20 125 (list jchar * jv) mmsk_t ms tl.

Theorem value_complete_all_t :
  (forall v x (r : renders v x), Pv_t v x r) /\
  (forall vs tl (r : renders_tail vs tl), Pt_t vs tl r) /\
  (forall ms tl (r : renders_mtail ms tl), Pm_t ms tl r).
Proof.
  apply renders_all; unfold Pv_t, Pt_t, Pm_t.
  - (* null *)
    intros _. apply (tvalue_of 4 JNull 110 [117; 108; 108]).
    + intros c pre post ps Hc. apply (M_tvalue_null c Hc pre _ post ps).
    + intros c Hc input pre post Hf Hin. exists []. split; [apply M_tnull; exact Hc|].
      cbn [map]. apply KT_null.
  - (* booleans *)
    intros b _. destruct b.
    + apply (tvalue_of 5 (JBool true) 116 [114; 117; 101]).
      * intros c pre post ps Hc. apply (M_tvalue_bool c Hc pre _ post ps 116 eq_refl).
      * intros c Hc input pre post Hf Hin. exists []. split; [apply (M_tbool c true); exact Hc|].
        cbn [map]. apply (KT_bool true).
    + apply (tvalue_of 5 (JBool false) 102 [97; 108; 115; 101]).
      * intros c pre post ps Hc. apply (M_tvalue_bool c Hc pre _ post ps 102 eq_refl).
      * intros c Hc input pre post Hf Hin. exists []. split; [apply (M_tbool c false); exact Hc|].
        cbn [map]. apply (KT_bool false).
  - (* numbers *)
    intros n Hw. cbn [wf_jv] in Hw. destruct (num_head n Hw) as [d [x' [E Hd]]].
    rewrite E. apply (tvalue_of 10 (JNum n) d x').
    + intros c pre post ps Hc. apply (M_tvalue_num c Hc pre _ post ps d Hd).
    + intros c Hc input pre post Hf Hin. exists []. split.
      * rewrite <- E. apply M_tnumber; [exact Hc|exact Hw|exact (follow_nf2 _ Hf)].
      * cbn [map]. rewrite <- E. apply KT_num.
  - (* strings *)
    intros s Hw. cbn [wf_jv] in Hw. apply (tvalue_of 16 (JStr s) 34 (chars_text s ++ [34])).
    + intros c pre post ps Hc. apply (M_tvalue_str c Hc pre _ post ps).
    + intros c Hc input pre post Hf Hin. exists []. split.
      * apply (M_tstring c s pre post Hc Hw).
      * cbn [map]. apply (KT_str s).
  - (* [] *)
    intros w Hw _. apply (tvalue_of 19 (JArr []) 91 (w ++ [93])).
    + intros c pre post ps Hc. apply (M_tvalue_arr c Hc pre _ post ps).
    + apply arr0_rule_t. exact Hw.
  - (* [v, ...] *)
    intros v vs w1 x tl wl Hw1 r IHv rt IHt Hwl Hwf.
    cbn [wf_jv forallb] in Hwf. apply andb_prop in Hwf. destruct Hwf as [Hwf1 Hwf2].
    apply (tvalue_of 19 (JArr (v :: vs)) 91 (w1 ++ x ++ tl ++ wl ++ [93])).
    + intros c pre post ps Hc. apply (M_tvalue_arr c Hc pre _ post ps).
    + apply arr_rule_t; auto.
  - (* {} *)
    intros w Hw _. apply (tvalue_of 18 (JObj []) 123 (w ++ [125])).
    + intros c pre post ps Hc. apply (M_tvalue_obj c Hc pre _ post ps).
    + apply obj0_rule_t. exact Hw.
  - (* {k: v, ...} *)
    intros k v ms w1 wa wb x tl wl Hw1 Hwa Hwb r IHv rt IHt Hwl Hwf.
    cbn [wf_jv forallb fst snd] in Hwf. apply andb_prop in Hwf. destruct Hwf as [Hwf1 Hwf2].
    apply andb_prop in Hwf1. destruct Hwf1 as [Hk Hv].
    apply (tvalue_of 18 (JObj ((k, v) :: ms)) 123 (w1 ++ member_text k wa wb x ++ tl ++ wl ++ [125])).
    + intros c pre post ps Hc. apply (M_tvalue_obj c Hc pre _ post ps).
    + apply obj_rule_t; auto.
  - (* array tails *)
    intros _. apply ttail_nil; reflexivity.
  - intros v vs w2 w1 x tl Hw2 Hw1 r IHv rt IHt Hwf.
    cbn [forallb] in Hwf. apply andb_prop in Hwf. destruct Hwf as [Hwf1 Hwf2].
    destruct (renders_hd v x r Hwf1) as [d [x' [Ex Hd]]].
    destruct (vstart_facts d Hd) as [Hd1 _].
    apply (ttail_cons 17 93 eq_refl eq_refl jv msk_t v vs w2 w1 x tl d x'); auto.
    + exact (renders_tail_ok _ _ rt).
    + exact (IHv Hwf1).
  - (* object tails *)
    intros _. apply ttail_nil; reflexivity.
  - intros k v ms w2 w1 wa wb x tl Hw2 Hw1 Hwa Hwb r IHv rt IHt Hwf.
    cbn [forallb] in Hwf. apply andb_prop in Hwf. destruct Hwf as [Hwf1 Hwf2].
    unfold wfm in Hwf1. cbn [fst snd] in Hwf1. apply andb_prop in Hwf1. destruct Hwf1 as [Hk Hv].
    apply (ttail_cons 20 125 eq_refl eq_refl _ mmsk_t (k, v) ms w2 w1 (member_text k wa wb x) tl
             34 (chars_text k ++ [34] ++ wa ++ [58] ++ wb ++ x)); auto.
    + unfold member_text, str_text. assoc.
    + exact (renders_mtail_ok _ _ rt).
    + apply tmember_elem; auto.
Qed.

Lemma value_complete_t v x : renders v x -> wf_jv v = true -> valP_t v x.
Proof. intros r. exact (proj1 value_complete_all_t v x r). Qed.

(* ==================================================================================== *)
(* Part 5. Documents                                                                     *)
(* ==================================================================================== *)

Lemma ws_follow w : ws w -> hdP follow w = true.
Proof.
  intros H. destruct w as [|a w]; [reflexivity|]. cbn [hdP]. apply follow_ws.
  unfold ws in H. cbn [forallb] in H. apply andb_prop in H. apply H.
Qed.

Lemma json_rule_complete_t v w1 x w2 :
  wf_jv v = true -> ws w1 -> renders v x -> ws w2 ->
  exists tree, M TG ctx0 (TEval (ERef 21 None)) [] (w1 ++ x ++ w2) [] tree /\
               mirrors_t (w1 ++ x ++ w2) v tree.
Proof.
  intros Hwf Hw1 Hr Hw2.
  pose proof (value_complete_t v x Hr Hwf) as Hv.
  destruct (renders_hd v x Hr Hwf) as [d [x' [Ex Hd0]]].
  destruct (vstart_facts d Hd0) as [Hd _].
  set (c1 := rctx ctx0 21 false t_json_body).
  assert (Hc1 : c_atom c1 = NonAtomic) by (apply rctx_na; reflexivity).
  destruct (Hv c1 Hc1 (w1 ++ x ++ w2) w1 w2 (ws_follow w2 Hw2) eq_refl) as [pr [HM HK]].
  set (eoi := Pair 3 (lenN (w1 ++ x ++ w2)) (lenN (w1 ++ x ++ w2)) [] None).
  exists [Pair 21 (lenN (@nil N)) (lenN ([] ++ w1 ++ x ++ w2)) [pr; eoi] None]. split.
  - apply (M_rule_normal_g TG ctx0 21 false t_json_body [] (w1 ++ x ++ w2) [] [pr; eoi] tk_json eq_refl).
    fold c1. unfold t_json_body. apply M_seq.
    eapply M_cast;
      [apply (Ms_cons TG c1 (ERef 22 None) (ERef 17 None) [ERef 3 None] [] [] w1 (x ++ w2) [] [] ([pr] ++ [eoi]));
        [eapply M_sref; [exact tk_soi|apply M_soi]
        |apply MS_tws; [exact Hc1|exact Hw1|rewrite Ex; exact Hd]
        |eapply M_cast;
          [apply (Ms_cons TG c1 (ERef 17 None) (ERef 3 None) [] ([] ++ [] ++ w1) x w2 [] [] [pr] [eoi]);
            [eapply M_cast; [exact HM|assoc..]
            |apply MS_tws; [exact Hc1|exact Hw2|reflexivity]
            |apply Ms_one; eapply M_cast;
               [apply (M_rule_normal_g TG c1 3 false EEoi _ [] [] [] tk_eoi Hc1); apply M_eoi|assoc..]]
          |assoc..]]
      |assoc..].
  - exists (skel (w1 ++ x ++ w2) pr). split; [|exact HK].
    cbn [map skel]. unfold eoi. cbn [skel map]. rewrite slice_empty.
    rewrite (slice_in (w1 ++ x ++ w2) [] (w1 ++ x ++ w2) []); [reflexivity|].
    cbn [app]. rewrite app_nil_r. reflexivity.
Qed.

(* ------------------------------------------------------------------------------------ *)
(* COMPLETENESS: every RFC 8259 text (any top-level value) is accepted by                 *)
(* tests/grammars/json.pest, the whole input is consumed, and the parse tree mirrors it.  *)
(* ------------------------------------------------------------------------------------ *)
Theorem json_test_complete : forall v text, wf_jv v = true -> renders_doc v text ->
  exists f s tree,
    parse json_test_grammar f json_test_grammar_start text 0 = Ok s tree /\ s_rest s = [] /\
    mirrors_t text v tree.
Proof.
  intros v text Hwf Hdoc. destruct Hdoc as [v w1 x w2 Hw1 Hr Hw2].
  destruct (json_rule_complete_t v w1 x w2 Hwf Hw1 Hr Hw2) as [tree [HM HK]].
  unfold M, OKt in HM. rewrite app_nil_r in HM.
  destruct (HM trk0) as [t' [f [E D]]].
  exists f. eexists. exists tree. split; [exact E|]. split; [reflexivity|exact HK].
Qed.

(* the lexical fragments on their own: `number` and `string` accept every jnum / jchar list *)
Theorem number_complete_t : forall c n pre post, c_atom c = NonAtomic -> wf_jnum n = true ->
  hdP nf2 post = true ->
  M TG c (TEval (ERef 10 None)) pre (num_text n) post
    [Pair 10 (lenN pre) (lenN (pre ++ num_text n)) [] None].
Proof. intros. apply M_tnumber; assumption. Qed.

Theorem string_complete_t : forall c s pre post, c_atom c = NonAtomic -> forallb wf_jchar s = true ->
  M TG c (TEval (ERef 16 None)) pre (str_text s) post
    [Pair 16 (lenN pre) (lenN (pre ++ str_text s)) [] None].
Proof. intros. apply M_tstring; assumption. Qed.

(* ==================================================================================== *)
(* Part 6. Non-vacuity: concrete documents                                               *)
(* ==================================================================================== *)

(* the document of JsonComplete.v (ex_v / ex_text): the theorem applies ... *)
Example ex_accepted_t : exists f s tree,
  parse json_test_grammar f json_test_grammar_start ex_text 0 = Ok s tree /\ s_rest s = [] /\
  mirrors_t ex_text ex_v tree.
Proof. exact (json_test_complete ex_v ex_text ex_wf ex_renders). Qed.

(* ... and agrees with running the reference semantics *)
Definition ex_run_t : res := parse json_test_grammar 200 json_test_grammar_start ex_text 0.

Definition tstr (s : list jchar) : sk := SK 16 (str_text s) [].
Definition tval (k : sk) : sk := match k with SK _ sl _ => SK 17 sl [k] end.

Example ex_parse_ok_t :
  match ex_run_t with
  | Ok s tree =>
      s_rest s = [] /\ s_pos s = lenN ex_text /\
      map (skel ex_text) tree =
        [ SK 21 ex_text
          [ tval (SK 18 (firstn 76 (skipn 1 ex_text))
              [ SK 20 (firstn 53 (skipn 2 ex_text))
                  [ tstr ex_key;
                    tval (SK 19 (firstn 39 (skipn 16 ex_text))
                      [ tval (SK 10 (num_text ex_num1) []);
                        tval (SK 10 (num_text ex_num2) []);
                        tval (SK 5 (bool_text true) []);
                        tval (SK 5 (bool_text false) []);
                        tval (SK 4 null_text []);
                        tval (tstr [JPlain 120; JEsc 92]) ]) ];
                SK 20 (firstn 7 (skipn 57 ex_text)) [ tstr [JPlain 111]; tval (SK 18 [123; 32; 125] []) ];
                SK 20 (firstn 9 (skipn 67 ex_text)) [ tstr [JPlain 101]; tval (SK 19 [91; 9; 93] []) ] ]);
            SK 3 [] [] ] ]
  | _ => False
  end.
Proof. vm_compute. repeat split. Qed.

(* a scalar top level (not allowed by examples/json/json.pest): <LF>-1.50E-7<SP>, and 1e5 through
   the `| exp` alternative *)
Definition ex_num3 : jnum :=
  {| neg := true; int_part := [49]; frac := Some [53; 48]; expo := Some (69, Some 45, [55]) |}.
Definition ex_num4 : jnum := {| neg := false; int_part := [49]; frac := None; expo := Some (101, None, [53]) |}.
Definition ex_text3 : text := [10; 45; 49; 46; 53; 48; 69; 45; 55; 32].
Definition ex_text4 : text := [49; 101; 53].

Example ex_renders3 : renders_doc (JNum ex_num3) ex_text3.
Proof. exact (R_doc (JNum ex_num3) [10] _ [32] eq_refl (R_num ex_num3) eq_refl). Qed.
Example ex_renders4 : renders_doc (JNum ex_num4) ex_text4.
Proof. exact (R_doc (JNum ex_num4) [] _ [] eq_refl (R_num ex_num4) eq_refl). Qed.

Example ex_accepted3 : exists f s tree,
  parse json_test_grammar f json_test_grammar_start ex_text3 0 = Ok s tree /\ s_rest s = [] /\
  mirrors_t ex_text3 (JNum ex_num3) tree.
Proof. exact (json_test_complete (JNum ex_num3) ex_text3 eq_refl ex_renders3). Qed.

Example ex_parse_ok3 :
  match parse json_test_grammar 100 json_test_grammar_start ex_text3 0 with
  | Ok s tree =>
      s_rest s = [] /\
      map (skel ex_text3) tree =
        [ SK 21 ex_text3 [ tval (SK 10 (num_text ex_num3) []); SK 3 [] [] ] ]
  | _ => False
  end.
Proof. vm_compute. repeat split. Qed.

Example ex_parse_ok4 :
  match parse json_test_grammar 100 json_test_grammar_start ex_text4 0 with
  | Ok s tree =>
      s_rest s = [] /\
      map (skel ex_text4) tree =
        [ SK 21 ex_text4 [ tval (SK 10 (num_text ex_num4) []); SK 3 [] [] ] ]
  | _ => False
  end.
Proof. vm_compute. repeat split. Qed.

Print Assumptions number_complete_t.
Print Assumptions string_complete_t.
Print Assumptions value_complete_all_t.
Print Assumptions ex_accepted_t.
Print Assumptions json_test_complete.
