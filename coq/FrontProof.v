(* FrontProof.v — totality and error-position theorems for the model in Front.v.
   Structure: one lemma per model function, of the form
       invariant on the input state -> good POST (f fuel state)        (given enough fuel)
   where `good` says: the result is Ok and satisfies POST, or a syntax error whose position is
   <= L (the grammar length); never a crash, never OutOfFuel.  Fuel is measured by the remaining length. *)
From Coq Require Import List NArith ZArith Bool Lia.
From PP Require Import Base Builtins Front.
Import ListNotations.
Close Scope N_scope.
Open Scope nat_scope.

Section GOOD.
  Variable L : nat.      (* length of the grammar *)

  Definition good {A} (P : A -> Prop) (r : res A) : Prop :=
    match r with
    | Ok a => P a
    | Syn p => p <= L
    | Crash k => False
    | OutOfFuel => False
    end.

  Lemma good_bind : forall A B (P : A -> Prop) (Q : B -> Prop) (m : res A) (f : A -> res B),
    good P m -> (forall a, P a -> good Q (f a)) -> good Q (bind m f).
  Proof. intros A B P Q [a|p|k|] f H1 H2; simpl in *; auto. Qed.

  Lemma good_weaken : forall A (P Q : A -> Prop) (r : res A),
    good P r -> (forall a, P a -> Q a) -> good Q r.
  Proof. intros A P Q [a|p|k|] H1 H2; simpl in *; auto. Qed.

  (* ---------------------------------------------------------------- lists *)
  Lemma Forall_tl : forall A (P : A -> Prop) l, Forall P l -> Forall P (tl l).
  Proof. intros A P [|x l] H; simpl; auto. inversion H; auto. Qed.

  (* ---------------------------------------------------------------- unescape.py *)
  Lemma lor_lt_pow2 : forall a b n, (a < 2 ^ n -> b < 2 ^ n -> N.lor a b < 2 ^ n)%N.
  Proof.
    intros a b n Ha Hb.
    destruct (N.eq_dec a 0) as [->|Na]; [rewrite N.lor_0_l; auto|].
    destruct (N.eq_dec b 0) as [->|Nb]; [rewrite N.lor_0_r; auto|].
    assert (0 < N.lor a b)%N.
    { destruct (N.eq_dec (N.lor a b) 0) as [E|E]; [|lia].
      apply N.lor_eq_0_iff in E. lia. }
    apply N.log2_lt_pow2; auto. rewrite N.log2_lor.
    apply N.max_lub_lt; apply N.log2_lt_pow2; lia.
  Qed.

  (* all digits hexadecimal: the value stays below 2^(k + 4 * number of digits) *)
  Lemma parse_hex_loop_bound : forall ds acc ts n k,
    parse_hex_loop ds acc ts = Ok n -> (acc < 2 ^ k)%N ->
    (n < 2 ^ (k + 4 * N.of_nat (length ds)))%N.
  Proof.
    induction ds as [|d r IH]; intros acc ts n k H Hacc.
    - simpl in H. inversion H; subst. simpl. rewrite N.add_0_r. auto.
    - simpl in H.
      assert (Hsh : (N.shiftl acc 4 < 2 ^ (k + 4))%N).
      { rewrite N.shiftl_mul_pow2, N.pow_add_r. apply N.mul_lt_mono_pos_r; [reflexivity|auto]. }
      assert (Hlow : forall x, (x < 16)%N -> (x < 2 ^ (k + 4))%N).
      { intros x Hx. apply N.lt_le_trans with (2 ^ 4)%N; [exact Hx|].
        apply N.pow_le_mono_r; lia. }
      replace (k + 4 * N.of_nat (length (d :: r)))%N with ((k + 4) + 4 * N.of_nat (length r))%N
        by (simpl length; lia).
      destruct ((48 <=? d)%N && (d <=? 57)%N) eqn:E1.
      { apply andb_prop in E1 as [E1a E1b]. apply N.leb_le in E1a, E1b.
        eapply IH; [exact H|]. apply lor_lt_pow2; auto. apply Hlow; lia. }
      destruct ((65 <=? d)%N && (d <=? 70)%N) eqn:E2.
      { apply andb_prop in E2 as [E2a E2b]. apply N.leb_le in E2a, E2b.
        eapply IH; [exact H|]. apply lor_lt_pow2; auto. apply Hlow; lia. }
      destruct ((97 <=? d)%N && (d <=? 102)%N) eqn:E3.
      { apply andb_prop in E3 as [E3a E3b]. apply N.leb_le in E3a, E3b.
        eapply IH; [exact H|]. apply lor_lt_pow2; auto. apply Hlow; lia. }
      discriminate.
  Qed.

  (* \xHH : two characters that parse give a value below 256 *)
  Lemma parse_hex_digits_2 : forall digits ts n,
    length digits = 2 -> parse_hex_digits digits ts = Ok n -> (n < 256)%N.
  Proof.
    intros digits ts n Hlen H. unfold parse_hex_digits in H.
    apply (parse_hex_loop_bound _ _ _ _ 0%N) in H; [|reflexivity].
    rewrite Hlen in H. exact H.
  Qed.

  Lemma parse_hex_digits_good : forall digits ts,
    ts <= L -> good (fun _ => True) (parse_hex_digits digits ts).
  Proof.
    intros digits ts Hts. unfold parse_hex_digits.
    generalize 0%N. induction digits as [|d r IH]; intros acc; simpl; auto.
    destruct ((48 <=? d)%N && (d <=? 57)%N); [apply IH|].
    destruct ((65 <=? d)%N && (d <=? 70)%N); [apply IH|].
    destruct ((97 <=? d)%N && (d <=? 102)%N); [apply IH|]. simpl; auto.
  Qed.

  Lemma chr_checked_good : forall cp ts, ts <= L -> good (fun _ => True) (chr_checked cp ts).
  Proof.
    intros cp ts Hts. unfold chr_checked.
    destruct ((1114111 <? cp)%N) eqn:E1; simpl; auto.
    destruct ((55296 <=? cp)%N && (cp <=? 57343)%N); simpl; auto.
    unfold py_chr. apply N.ltb_ge in E1. apply N.leb_le in E1. rewrite E1. simpl; auto.
  Qed.

  Lemma decode_hex_char_good : forall value index ts,
    ts <= L -> good (fun r => index <= snd r) (decode_hex_char value index ts).
  Proof.
    intros value index ts Hts. unfold decode_hex_char.
    destruct (negb _); simpl; auto.
    destruct (find_from _ _ _); simpl; auto.
    destruct (negb _); simpl; auto.
    eapply good_bind; [apply parse_hex_digits_good; auto|].
    intros cp _. simpl. lia.
  Qed.

  Lemma decode_escape_sequence_good : forall value index ts,
    ts <= L -> good (fun r => index <= snd r) (decode_escape_sequence value index ts).
  Proof.
    intros value index ts Hts. unfold decode_escape_sequence.
    destruct (nth_error value index) as [ch|]; simpl; auto.
    repeat match goal with
           | |- good _ (if ?b then _ else _) => destruct b eqn:?; simpl; auto
           end.
    - (* \x *)
      apply negb_false_iff in Heqb5. apply Nat.eqb_eq in Heqb5.
      pose proof (parse_hex_digits_good (slice value (index + 1) (index + 3)) ts Hts) as G.
      destruct (parse_hex_digits _ ts) eqn:E; simpl; try exact G.
      apply parse_hex_digits_2 in E; auto. unfold py_chr.
      assert (Hle : (a <=? 1114111)%N = true) by (apply N.leb_le; lia).
      rewrite Hle. simpl. lia.
    - (* \u *)
      eapply good_bind; [apply decode_hex_char_good; auto|].
      intros [cp i] Hi. simpl in Hi.
      eapply good_bind; [apply chr_checked_good; auto|].
      intros c _. simpl. exact Hi.
  Qed.

  Lemma unescape_loop_good : forall fuel value index acc ts,
    ts <= L -> length value - index < fuel ->
    good (fun _ => True) (unescape_loop fuel value index acc ts).
  Proof.
    induction fuel as [|fuel IH]; intros value index acc ts Hts Hf; [lia|].
    - simpl. destruct (negb (index <? length value)) eqn:E; simpl; auto.
      apply negb_false_iff, Nat.ltb_lt in E.
      destruct (nth_error value index) as [ch|] eqn:En.
      2:{ apply nth_error_None in En. lia. }
      destruct (ch =? 92)%N.
      + eapply good_bind; [apply decode_escape_sequence_good; auto|].
        intros [c i] Hi. simpl in Hi. apply IH; auto. lia.
      + apply IH; auto. lia.
  Qed.

  Lemma unescape_string_good : forall value ts,
    ts <= L -> good (fun _ => True) (unescape_string value ts).
  Proof. intros. unfold unescape_string. apply unescape_loop_good; auto. lia. Qed.

  (* ---------------------------------------------------------------- regular expressions *)
  Definition re_total (re : regex) : Prop := forall s, re s <> MFuel.
  Definition re_pos (re : regex) : Prop := forall s n, re s = Match n -> 1 <= n /\ s <> [].

  Ltac break_match :=
    repeat match goal with
           | |- context [match ?x with _ => _ end] => destruct x eqn:?
           end.

  Lemma re_lit_total : forall lit, re_total (re_lit lit).
  Proof. intros lit s. unfold re_lit. break_match; discriminate. Qed.
  Lemma re_lit_pos : forall c lit, re_pos (re_lit (c :: lit)).
  Proof.
    intros c lit s n. unfold re_lit. destruct (strip_prefix (c :: lit) s) eqn:E; [|discriminate].
    intros H; inversion H; subst. split; [simpl; lia|]. intros ->. simpl in E. discriminate.
  Qed.
  Lemma re_keyword_total : forall lit, re_total (re_keyword lit).
  Proof. intros lit s. unfold re_keyword. break_match; discriminate. Qed.
  Lemma re_identifier_total : re_total re_identifier.
  Proof. intros s. unfold re_identifier. break_match; discriminate. Qed.
  Lemma re_tag_total : re_total re_tag.
  Proof.
    intros s. unfold re_tag. destruct s; [discriminate|]. destruct (n =? 35)%N; [|discriminate].
    pose proof (re_identifier_total s). destruct (re_identifier s); congruence.
  Qed.
  Lemma re_number_total : re_total re_number.
  Proof. intros s. unfold re_number. break_match; discriminate. Qed.
  Lemma re_number_pos : re_pos re_number.
  Proof.
    intros s n. unfold re_number. destruct (count_while is_digit s) eqn:E; [discriminate|].
    intros H; inversion H; subst. split; [lia|]. intros ->. discriminate.
  Qed.
  Lemma re_integer_total : re_total re_integer.
  Proof. intros s. unfold re_integer. break_match; discriminate. Qed.
  Lemma re_modifier_total : re_total re_modifier.
  Proof. intros s. unfold re_modifier. break_match; discriminate. Qed.
  Lemma re_whitespace_total : re_total re_whitespace.
  Proof. intros s. unfold re_whitespace. break_match; discriminate. Qed.
  Lemma re_whitespace_pos : re_pos re_whitespace.
  Proof.
    intros s n. unfold re_whitespace. destruct (count_ws s) eqn:E; [discriminate|].
    intros H; inversion H; subst. split; [lia|]. intros ->. discriminate.
  Qed.
  Lemma re_line_comment_total : re_total re_line_comment.
  Proof. intros s. unfold re_line_comment. break_match; discriminate. Qed.
  Lemma re_line_comment_pos : re_pos re_line_comment.
  Proof.
    intros s n. unfold re_line_comment. destruct s as [|a [|b r]]; try discriminate.
    break_match; try discriminate. intros H; inversion H; subst. split; [lia|discriminate].
  Qed.
  Lemma re_char_total : re_total re_char.
  Proof. intros s. unfold re_char. break_match; discriminate. Qed.

  Lemma bc_body_total : forall fuel s, length s < fuel -> bc_body fuel s <> MFuel.
  Proof.
    induction fuel as [|fuel IH]; intros s Hf; [lia|].
    simpl. destruct s as [|c r]; [discriminate|]. simpl in Hf.
    destruct ((c =? 42)%N && _); [discriminate|].
    destruct ((c =? 47)%N && _).
    - assert (H1 : length (tl r) < fuel) by (destruct r; simpl in *; lia).
      pose proof (IH (tl r) H1) as G1.
      destruct (bc_body fuel (tl r)) as [n| |] eqn:E1; try congruence.
      assert (H2 : length (skipn n (tl r)) < fuel) by (rewrite skipn_length; lia).
      pose proof (IH _ H2) as G2.
      destruct (bc_body fuel (skipn n (tl r))); congruence.
    - assert (H1 : length r < fuel) by lia.
      pose proof (IH r H1) as G1. destruct (bc_body fuel r); congruence.
  Qed.
  Lemma re_block_comment_total : re_total re_block_comment.
  Proof.
    intros s. unfold re_block_comment. destruct s as [|a [|b r]]; try discriminate.
    destruct ((a =? 47)%N && (b =? 42)%N); [|discriminate].
    pose proof (bc_body_total (S (length r)) r (Nat.lt_succ_diag_r _)).
    destruct (bc_body (S (length r)) r); congruence.
  Qed.
  Lemma re_block_comment_pos : re_pos re_block_comment.
  Proof.
    intros s n. unfold re_block_comment. destruct s as [|a [|b r]]; try discriminate.
    destruct ((a =? 47)%N && (b =? 42)%N); [|discriminate].
    destruct (bc_body (S (length r)) r); try discriminate.
    intros H; inversion H; subst. split; [lia|discriminate].
  Qed.

  (* ---------------------------------------------------------------- scanner state *)
  Definition cur_ok (c : cur) : Prop := ix c + length (suf c) = L.
  Definition tok_ok (t : token) : Prop := tk_start t <= L.
  Definition sc_ok (s : sc) : Prop :=
    cur_ok (sc_start s) /\ cur_ok (sc_pos s) /\ sc_len s = L /\ Forall tok_ok (sc_rtokens s).

  Definition post (s : sc) (s' : sc) : Prop := sc_ok s' /\ rem s' <= rem s.
  Definition postb (s : sc) (a : bool * sc) : Prop := sc_ok (snd a) /\ rem (snd a) <= rem s.
  Definition postb_lt (s : sc) (a : bool * sc) : Prop :=
    sc_ok (snd a) /\ rem (snd a) <= rem s /\ (fst a = true -> rem (snd a) < rem s).

  Lemma cur_incr_ok : forall c, cur_ok c -> suf c <> [] -> cur_ok (cur_incr c).
  Proof.
    intros [i [|x r]] H1 Hne; unfold cur_ok in *; simpl in *; [congruence|lia].
  Qed.
  Lemma cur_adv_ok : forall n c, cur_ok c -> cur_ok (cur_adv n c).
  Proof.
    intros n [i t] H1. unfold cur_ok in *; simpl in *.
    assert (length t = length (firstn n t) + length (skipn n t))
      by (rewrite <- app_length, firstn_skipn; auto). lia.
  Qed.
  Lemma cur_adv_le : forall n c, length (suf (cur_adv n c)) <= length (suf c).
  Proof. intros. simpl. rewrite skipn_length. lia. Qed.
  Lemma cur_adv_lt : forall n c, 1 <= n -> suf c <> [] ->
    length (suf (cur_adv n c)) < length (suf c).
  Proof.
    intros n c Hn Hne. simpl. rewrite skipn_length. destruct (suf c); [congruence|cbn [length]; lia].
  Qed.

  Lemma sc_ok_set_pos : forall s c, sc_ok s -> cur_ok c -> sc_ok (set_pos s c).
  Proof. intros s c (H1 & H2 & H3 & H4) Hc. unfold sc_ok; simpl; tauto. Qed.
  Lemma sc_ok_set_start : forall s c, sc_ok s -> cur_ok c -> sc_ok (set_start s c).
  Proof. intros s c (H1 & H2 & H3 & H4) Hc. unfold sc_ok; simpl; tauto. Qed.
  Lemma sc_ok_pos : forall s, sc_ok s -> cur_ok (sc_pos s).
  Proof. intros s H; apply H. Qed.
  Lemma sc_ok_start : forall s, sc_ok s -> cur_ok (sc_start s).
  Proof. intros s H; apply H. Qed.
  Lemma sc_ok_start_le : forall s, sc_ok s -> ix (sc_start s) <= L.
  Proof. intros s (H & _). unfold cur_ok in H. lia. Qed.

  Lemma emit_ok : forall k v s, sc_ok s -> sc_ok (emit k v s).
  Proof.
    intros k v s (H1 & H2 & H3 & H4). unfold sc_ok; simpl.
    repeat (split; [assumption|]).
    constructor; auto. unfold tok_ok, cur_ok in *; simpl. lia.
  Qed.
  Lemma rem_emit : forall k v s, rem (emit k v s) = rem s.
  Proof. reflexivity. Qed.

  Lemma next_spec : forall s c s', next s = (c, s') -> sc_ok s ->
    sc_ok s' /\ rem s' <= rem s /\ (forall ch, c = Some ch -> S (rem s') = rem s)
    /\ (c = None -> s' = s).
  Proof.
    intros s c s' H Hok. revert H. unfold next, rem.
    destruct (suf (sc_pos s)) as [|x r] eqn:E; intros H; inversion H; subst.
    - rewrite E. split; [assumption|]. split; [auto|]. split; [intros; discriminate|auto].
    - split; [apply sc_ok_set_pos; auto; apply cur_incr_ok; [apply Hok|congruence]|].
      simpl. rewrite E. simpl. split; [auto|]. split; [auto|intros; discriminate].
  Qed.

  Lemma peek_is_nonempty : forall c s, peek_is c s = true -> suf (sc_pos s) <> [].
  Proof. unfold peek_is, peek. intros c s H E. rewrite E in H. discriminate. Qed.

  Lemma emit_next_ok : forall k s, sc_ok s -> post s (emit_next k s).
  Proof.
    intros k s Hok. unfold emit_next. destruct (next s) as [o s'] eqn:E.
    destruct (next_spec _ _ _ E Hok) as (H1 & H2 & _).
    split; [apply emit_ok; auto|rewrite rem_emit; auto].
  Qed.
  Lemma emit_next_lt : forall c k s, sc_ok s -> peek_is c s = true ->
    sc_ok (emit_next k s) /\ rem (emit_next k s) < rem s.
  Proof.
    intros c k s Hok Hp. unfold emit_next. destruct (next s) as [o s'] eqn:E.
    destruct (next_spec _ _ _ E Hok) as (H1 & H2 & H3 & H4).
    split; [apply emit_ok; auto|]. rewrite rem_emit.
    destruct o as [ch|]; [specialize (H3 ch eq_refl); lia|].
    apply peek_is_nonempty in Hp. unfold next in E.
    destruct (suf (sc_pos s)); [congruence|discriminate].
  Qed.

  Lemma error_good : forall A (Q : A -> Prop) s, sc_ok s -> good Q (@error A s).
  Proof. intros A Q s (_ & _ & H & _). simpl. rewrite H. apply Nat.le_min_r. Qed.

  Lemma expect_good : forall c k s, sc_ok s ->
    good (fun s' => sc_ok s' /\ rem s' < rem s) (expect c k s).
  Proof.
    intros c k s Hok. unfold expect. destruct (peek_is c s) eqn:E.
    - simpl. eapply emit_next_lt; eauto.
    - apply error_good; auto.
  Qed.

  Lemma scan_good : forall re s, sc_ok s -> re_total re ->
    good (fun a => sc_ok (snd a) /\ rem (snd a) <= rem s
                   /\ (re_pos re -> fst a <> None -> rem (snd a) < rem s)) (scan re s).
  Proof.
    intros re s Hok Ht. unfold scan. specialize (Ht (suf (sc_pos s))).
    destruct (re (suf (sc_pos s))) as [n| |] eqn:E; simpl; [| |congruence].
    - split; [apply sc_ok_set_pos; auto; apply cur_adv_ok; apply Hok|].
      split; [apply cur_adv_le|].
      intros Hp _. destruct (Hp _ _ E). apply cur_adv_lt; auto.
    - split; [assumption|]. split; [auto|]. intros _ H; congruence.
  Qed.

  Lemma scan_emit_good : forall re k s, sc_ok s -> re_total re ->
    good (fun a => sc_ok (snd a) /\ rem (snd a) <= rem s
                   /\ (re_pos re -> fst a = true -> rem (snd a) < rem s)) (scan_emit re k s).
  Proof.
    intros re k s Hok Ht. unfold scan_emit.
    eapply good_bind; [apply scan_good; auto|].
    intros [v s'] (H1 & H2 & H4). simpl in *. destruct v as [value|]; simpl.
    - split; [apply emit_ok; auto|]. rewrite rem_emit. split; auto.
      intros Hp _. apply H4; auto. discriminate.
    - split; [assumption|]. split; [auto|]. intros; discriminate.
  Qed.

  Lemma skip_good : forall re s, sc_ok s -> re_total re -> re_pos re ->
    good (postb_lt s) (skip re s).
  Proof.
    intros re s Hok Ht Hp. unfold skip. specialize (Ht (suf (sc_pos s))).
    destruct (re (suf (sc_pos s))) as [n| |] eqn:E; simpl; [| |congruence].
    - destruct (Hp _ _ E). unfold postb_lt; simpl.
      split; [apply sc_ok_set_start; [apply sc_ok_set_pos; auto|]; apply cur_adv_ok; apply Hok|].
      split; [apply cur_adv_le|]. intros _. apply cur_adv_lt; auto.
    - unfold postb_lt; simpl. split; [assumption|]. split; [auto|]. intros; discriminate.
  Qed.

  Lemma skip_trivia_loop_good : forall fuel s, rem s < fuel -> sc_ok s ->
    good (post s) (skip_trivia_loop fuel s).
  Proof.
    induction fuel as [|fuel IH]; intros s Hf Hok; [lia|]. simpl.
    eapply good_bind; [apply skip_good; auto using re_whitespace_total, re_whitespace_pos|].
    intros [b1 s1] (O1 & R1 & T1); simpl in *.
    eapply good_bind; [apply skip_good; auto using re_line_comment_total, re_line_comment_pos|].
    intros [b2 s2] (O2 & R2 & T2); simpl in *.
    eapply good_bind; [apply skip_good; auto using re_block_comment_total, re_block_comment_pos|].
    intros [b3 s3] (O3 & R3 & T3); simpl in *.
    destruct (b1 || b2 || b3) eqn:E.
    - eapply good_weaken; [apply IH; auto|].
      + destruct b1; [specialize (T1 eq_refl); lia|].
        destruct b2; [specialize (T2 eq_refl); lia|].
        destruct b3; [specialize (T3 eq_refl); lia|discriminate].
      + intros s' [H1 H2]. split; auto. lia.
    - simpl. split; auto. lia.
  Qed.
  Lemma skip_trivia_good : forall s, sc_ok s -> good (post s) (skip_trivia s).
  Proof. intros. apply skip_trivia_loop_good; auto. Qed.

  (* ---------------------------------------------------------------- scanner functions *)
  Ltac gbind lem := eapply good_bind; [eapply lem; eauto|].

  Lemma post_refl : forall s, sc_ok s -> post s s.
  Proof. intros; split; auto. Qed.
  Lemma post_trans : forall s1 s2 s3, post s1 s2 -> post s2 s3 -> post s1 s3.
  Proof. intros s1 s2 s3 [_ H1] [H2 H3]; split; auto; lia. Qed.

  (* `self.pos += 1; self.start = self.pos` after a successful peek *)
  Lemma skip1_ok : forall c s, sc_ok s -> peek_is c s = true ->
    post s (set_start (set_pos s (cur_incr (sc_pos s))) (cur_incr (sc_pos s))).
  Proof.
    intros c s Hok Hp. apply peek_is_nonempty in Hp.
    assert (Hc : cur_ok (cur_incr (sc_pos s))) by (apply cur_incr_ok; auto; apply Hok).
    split; [apply sc_ok_set_start; auto; apply sc_ok_set_pos; auto|].
    unfold rem; simpl. destruct (suf (sc_pos s)); simpl; lia.
  Qed.

  (* `self.pos = self.start = pos` for a saved position *)
  Lemma restore_ok : forall s pos, sc_ok s -> cur_ok pos -> sc_ok (set_start (set_pos s pos) pos).
  Proof. intros. apply sc_ok_set_start; auto; apply sc_ok_set_pos; auto. Qed.

  Lemma string_loop_good : forall fuel k nu s, rem s < fuel -> sc_ok s ->
    good (postb s) (string_loop fuel k nu s).
  Proof.
    induction fuel as [|fuel IH]; intros k nu s Hf Hok; [lia|]. simpl.
    destruct (next s) as [c s1] eqn:En.
    destruct (next_spec _ _ _ En Hok) as (O1 & R1 & C1 & N1).
    eapply good_bind with (P := fun a => sc_ok (snd a) /\ rem (snd a) <= rem s1).
    { destruct (is_some_eq c 92); [|simpl; auto].
      destruct (in_escapes (peek s1)); [|apply error_good; auto].
      simpl. destruct (next s1) as [c2 s2] eqn:En2.
      destruct (next_spec _ _ _ En2 O1) as (O2 & R2 & _). simpl. auto. }
    intros [nu' s2] (O2 & R2). simpl in O2, R2.
    destruct c as [ch|]; [|apply error_good; auto].
    specialize (C1 ch eq_refl).
    destruct (ch =? 34)%N.
    - eapply good_bind with (P := fun _ => True).
      { destruct nu'; [|simpl; auto]. apply unescape_string_good.
        apply sc_ok_start_le; auto. }
      intros value _. simpl. split; [apply emit_ok; auto|].
      simpl. rewrite rem_emit. lia.
    - eapply good_weaken; [apply IH; auto; lia|].
      intros a [H1 H2]. split; auto. lia.
  Qed.

  Lemma accept_string_good : forall s, sc_ok s -> good (postb s) (accept_string s).
  Proof.
    intros s Hok. unfold accept_string.
    destruct (peek_is 34 s) eqn:Hp; [|simpl; split; auto].
    cbv beta iota zeta delta [negb].
    destruct (skip1_ok _ _ Hok Hp) as [O1 R1].
    eapply good_weaken; [apply string_loop_good; auto|].
    intros a [H1 H2]. split; auto. lia.
  Qed.

  Lemma accept_ci_string_good : forall s, sc_ok s -> good (postb s) (accept_ci_string s).
  Proof.
    intros s Hok. unfold accept_ci_string.
    destruct (peek_is 94 s) eqn:Hp; [|simpl; split; auto].
    cbv beta iota zeta delta [negb].
    destruct (skip1_ok _ _ Hok Hp) as [O1 R1].
    gbind skip_trivia_good. intros s2 [O2 R2].
    destruct (peek_is 34 s2) eqn:Hp2; [|apply error_good; auto].
    destruct (skip1_ok _ _ O2 Hp2) as [O3 R3].
    eapply good_weaken; [apply string_loop_good; auto|].
    intros a [H1 H2]. split; auto. lia.
  Qed.

  Lemma repeat_braces_loop_good : forall fuel s, rem s < fuel -> sc_ok s ->
    good (post s) (repeat_braces_loop fuel s).
  Proof.
    induction fuel as [|fuel IH]; intros s Hf Hok; [lia|]. simpl.
    gbind skip_trivia_good. intros s1 [O1 R1].
    destruct (peek_is 44 s1) eqn:Hp.
    - destruct (emit_next_lt 44%N K_COMMA s1 O1) as [O2 R2]; [auto|].
      eapply good_weaken; [apply IH; auto; lia|]. intros a [H1 H2]; split; auto; lia.
    - gbind scan_good; [apply re_number_total|].
      intros [v s2] (O2 & R2 & P2). cbn [fst snd] in *.
      destruct v as [value|]; [|simpl; split; auto; lia].
      assert (rem s2 < rem s1) by (apply P2; [apply re_number_pos|discriminate]).
      eapply good_weaken; [apply IH; [rewrite rem_emit; lia|apply emit_ok; auto]|].
      intros a [H1 H2]. rewrite rem_emit in H2. split; auto; lia.
  Qed.

  Lemma accept_one_postfix_op_good : forall s, sc_ok s ->
    good (fun a => sc_ok (snd a) /\ rem (snd a) <= rem s
                   /\ (fst a = true -> rem (snd a) < rem s)) (accept_one_postfix_op s).
  Proof.
    intros s Hok. unfold accept_one_postfix_op.
    gbind skip_trivia_good. intros s1 [O1 R1].
    assert (Hn : forall c k, is_some_eq (peek s1) c = true ->
              sc_ok (emit_next k s1) /\ rem (emit_next k s1) <= rem s
              /\ (true = true -> rem (emit_next k s1) < rem s)).
    { intros c k Hp. destruct (emit_next_lt c k s1 O1 Hp) as [A B].
      split; auto. split; [lia|intros; lia]. }
    destruct (negb _) eqn:E0.
    { simpl. split; [apply restore_ok; auto; apply Hok|]. split; [unfold rem; simpl; lia|].
      intros; discriminate. }
    destruct (is_some_eq (peek s1) 63) eqn:E1; [simpl; eapply Hn; eauto|].
    destruct (is_some_eq (peek s1) 42) eqn:E2; [simpl; eapply Hn; eauto|].
    destruct (is_some_eq (peek s1) 43) eqn:E3; [simpl; eapply Hn; eauto|].
    destruct (is_some_eq (peek s1) 123) eqn:E4; [|simpl in E0; discriminate].
    destruct (emit_next_lt 123%N K_LBRACE s1 O1) as [O2 R2]; [exact E4|].
    cbv zeta.
    gbind repeat_braces_loop_good. intros s3 [O3 R3].
    gbind skip_trivia_good. intros s4 [O4 R4].
    gbind expect_good. intros s5 [O5 R5].
    simpl. split; auto. split; [lia|intros; lia].
  Qed.

  Lemma accept_postfix_loop_good : forall fuel s, rem s < fuel -> sc_ok s ->
    good (post s) (accept_postfix_loop fuel s).
  Proof.
    induction fuel as [|fuel IH]; intros s Hf Hok; [lia|]. simpl.
    gbind accept_one_postfix_op_good. intros [b s1] (O1 & R1 & T1). cbn [fst snd] in *.
    destruct b; [|simpl; split; auto].
    specialize (T1 eq_refl).
    eapply good_weaken; [apply IH; auto; lia|]. intros a [H1 H2]; split; auto; lia.
  Qed.
  Lemma accept_postfix_op_good : forall s, sc_ok s -> good (post s) (accept_postfix_op s).
  Proof. intros. apply accept_postfix_loop_good; auto. Qed.

  Lemma prefix_loop_good : forall fuel s, rem s < fuel -> sc_ok s ->
    good (post s) (prefix_loop fuel s).
  Proof.
    induction fuel as [|fuel IH]; intros s Hf Hok; [lia|]. simpl.
    destruct (peek_is 38 s || peek_is 33 s) eqn:E; [|simpl; split; auto].
    assert (exists s1, (if peek_is 38 s then emit_next K_POSITIVE_PREDICATE s
                        else emit_next K_NEGATIVE_PREDICATE s) = s1
                       /\ sc_ok s1 /\ rem s1 < rem s) as (s1 & -> & O1 & R1).
    { eexists; split; [reflexivity|].
      destruct (peek_is 38 s) eqn:E1.
      - eapply emit_next_lt; eauto.
      - simpl in E. eapply emit_next_lt; eauto. }
    gbind skip_trivia_good. intros s2 [O2 R2].
    eapply good_weaken; [apply IH; auto; lia|]. intros a [H1 H2]; split; auto; lia.
  Qed.

  Lemma accept_peek_tail_good : forall s, sc_ok s -> good (postb s) (accept_peek_tail s).
  Proof.
    intros s Hok. unfold accept_peek_tail.
    gbind skip_trivia_good. intros s1 [O1 R1].
    destruct (peek_is 91 s1) eqn:Hp; cbv beta iota zeta delta [negb].
    2:{ simpl. split; [apply restore_ok; auto; apply Hok|unfold rem; simpl; lia]. }
    destruct (emit_next_lt 91%N K_LBRACKET s1 O1) as [O2 R2]; [exact Hp|].
    gbind skip_trivia_good. intros s3 [O3 R3].
    gbind scan_emit_good; [apply re_integer_total|]. intros [b4 s4] (O4 & R4 & _). cbn [fst snd] in *.
    eapply good_bind with (P := post s4).
    { destruct b4; [apply skip_trivia_good; auto|simpl; apply post_refl; auto]. }
    intros s5 [O5 R5].
    gbind scan_emit_good; [apply re_lit_total|]. intros [b6 s6] (O6 & R6 & _). cbn [fst snd] in *.
    destruct b6; cbv beta iota delta [negb]; [|apply error_good; auto].
    gbind skip_trivia_good. intros s7 [O7 R7].
    gbind scan_emit_good; [apply re_integer_total|]. intros [b8 s8] (O8 & R8 & _). cbn [fst snd] in *.
    eapply good_bind with (P := post s8).
    { destruct b8; [apply skip_trivia_good; auto|simpl; apply post_refl; auto]. }
    intros s9 [O9 R9].
    gbind expect_good. intros s10 [O10 R10].
    unfold postb; cbn [fst snd good]. split; auto. lia.
  Qed.

  Lemma accept_range_tail_good : forall s, sc_ok s -> good (postb s) (accept_range_tail s).
  Proof.
    intros s Hok. unfold accept_range_tail.
    gbind skip_trivia_good. intros s1 [O1 R1].
    gbind scan_emit_good; [apply re_lit_total|]. intros [b2 s2] (O2 & R2 & _). cbn [fst snd] in *.
    destruct b2; cbv beta iota delta [negb]; [|apply error_good; auto].
    gbind skip_trivia_good. intros s3 [O3 R3].
    gbind scan_emit_good; [apply re_char_total|]. intros [b4 s4] (O4 & R4 & _). cbn [fst snd] in *.
    destruct b4; cbv beta iota delta [negb]; [|apply error_good; auto].
    unfold postb; cbn [fst snd good]. split; auto. lia.
  Qed.

  Ltac fin := unfold postb, post; cbn [fst snd good]; split; [auto|try lia].
  Ltac wk lem := eapply good_weaken; [eapply lem; eauto|];
                 try (intros ? [? ?]; unfold postb, post in *; cbn [fst snd] in *; split; [auto|lia]).

  (* accept_expression / accept_expression_loop / accept_term / accept_terminal *)
  Lemma accept_group_good : forall fuel,
    (forall s, sc_ok s -> 3 * rem s + 3 <= fuel -> good (post s) (accept_expression fuel s)) /\
    (forall s, sc_ok s -> 3 * rem s + 1 <= fuel -> good (post s) (accept_expression_loop fuel s)) /\
    (forall s, sc_ok s -> 3 * rem s + 2 <= fuel -> good (post s) (accept_term fuel s)) /\
    (forall s, sc_ok s -> 3 * rem s + 1 <= fuel -> good (postb s) (accept_terminal fuel s)).
  Proof.
    induction fuel as [|fuel (IHE & IHL & IHT & IHA)].
    { repeat split; intros; lia. }
    split; [|split; [|split]]; intros s Hok Hf.
    - (* accept_expression *)
      cbn [accept_expression accept_expression_loop accept_term accept_terminal].
      gbind skip_trivia_good. intros s1 [O1 R1].
      eapply good_bind with (P := post s1).
      { destruct (peek_is 124 s1) eqn:Hp; [|apply post_refl; auto].
        destruct (emit_next_lt 124%N K_CHOICE_OP s1 O1) as [O2 R2]; [exact Hp|].
        wk skip_trivia_good. }
      intros s2 [O2 R2].
      gbind IHT; [lia|]. intros s3 [O3 R3].
      wk IHL. lia.
    - (* accept_expression_loop *)
      cbn [accept_expression accept_expression_loop accept_term accept_terminal].
      gbind skip_trivia_good. intros s1 [O1 R1].
      destruct (peek_is 126 s1) eqn:Hp1.
      { destruct (emit_next_lt 126%N K_SEQUENCE_OP s1 O1) as [O2 R2]; [exact Hp1|].
        gbind skip_trivia_good. intros s3 [O3 R3].
        gbind IHT; [lia|]. intros s4 [O4 R4].
        wk IHL. lia. }
      destruct (peek_is 124 s1) eqn:Hp2; [|fin].
      destruct (emit_next_lt 124%N K_CHOICE_OP s1 O1) as [O2 R2]; [exact Hp2|].
      gbind skip_trivia_good. intros s3 [O3 R3].
      gbind IHT; [lia|]. intros s4 [O4 R4].
      wk IHL. lia.
    - (* accept_term *)
      cbn [accept_expression accept_expression_loop accept_term accept_terminal].
      gbind scan_good; [apply re_tag_total|]. intros [v s1] (O1 & R1 & _). cbn [fst snd] in *.
      eapply good_bind with (P := post s1).
      { destruct v as [value|]; [|apply post_refl; auto].
        assert (Oe : sc_ok (emit K_TAG value s1)) by (apply emit_ok; auto).
        gbind skip_trivia_good. intros s2 [O2 R2]. rewrite rem_emit in R2.
        gbind expect_good. intros s3 [O3 R3].
        wk skip_trivia_good. }
      intros s2 [O2 R2].
      gbind prefix_loop_good. intros s3 [O3 R3].
      gbind IHA; [lia|]. intros [b s4] [O4 R4]. cbn [fst snd] in *.
      destruct b; [wk accept_postfix_op_good|].
      gbind expect_good. intros s5 [O5 R5].
      gbind skip_trivia_good. intros s6 [O6 R6].
      gbind IHE; [lia|]. intros s7 [O7 R7].
      gbind skip_trivia_good. intros s8 [O8 R8].
      gbind expect_good. intros s9 [O9 R9].
      wk accept_postfix_op_good.
    - (* accept_terminal *)
      cbn [accept_expression accept_expression_loop accept_term accept_terminal].
      gbind scan_emit_good; [apply re_lit_total|]. intros [b s1] (O1 & R1 & _). cbn [fst snd] in *.
      destruct b.
      { gbind skip_trivia_good. intros s2 [O2 R2].
        gbind expect_good. intros s3 [O3 R3].
        gbind skip_trivia_good. intros s4 [O4 R4].
        gbind accept_string_good. intros [b5 s5] [O5 R5]. cbn [fst snd] in *.
        gbind skip_trivia_good. intros s6 [O6 R6].
        gbind expect_good. intros s7 [O7 R7].
        fin. }
      gbind scan_emit_good; [apply re_lit_total|]. intros [b s2] (O2 & R2 & _). cbn [fst snd] in *.
      destruct b.
      { gbind skip_trivia_good. intros s3 [O3 R3].
        gbind expect_good. intros s4 [O4 R4].
        gbind skip_trivia_good. intros s5 [O5 R5].
        gbind IHE; [lia|]. intros s6 [O6 R6].
        gbind skip_trivia_good. intros s7 [O7 R7].
        gbind expect_good. intros s8 [O8 R8].
        fin. }
      gbind scan_emit_good; [apply re_keyword_total|]. intros [b s3] (O3 & R3 & _). cbn [fst snd] in *.
      destruct b; [fin|].
      gbind scan_emit_good; [apply re_keyword_total|]. intros [b s4] (O4 & R4 & _). cbn [fst snd] in *.
      destruct b; [fin|].
      gbind scan_emit_good; [apply re_keyword_total|]. intros [b s5] (O5 & R5 & _). cbn [fst snd] in *.
      destruct b; [fin|].
      gbind scan_emit_good; [apply re_keyword_total|]. intros [b s6] (O6 & R6 & _). cbn [fst snd] in *.
      destruct b; [fin|].
      gbind scan_emit_good; [apply re_keyword_total|]. intros [b s7] (O7 & R7 & _). cbn [fst snd] in *.
      destruct b; [wk accept_peek_tail_good|].
      gbind scan_emit_good; [apply re_identifier_total|]. intros [b s8] (O8 & R8 & _). cbn [fst snd] in *.
      destruct b; [fin|].
      gbind accept_string_good. intros [b s9] [O9 R9]. cbn [fst snd] in *.
      destruct b; [fin|].
      gbind accept_ci_string_good. intros [b s10] [O10 R10]. cbn [fst snd] in *.
      destruct b; [fin|].
      gbind scan_emit_good; [apply re_char_total|]. intros [b s11] (O11 & R11 & _). cbn [fst snd] in *.
      destruct b; [wk accept_range_tail_good|].
      fin.
  Qed.

  Lemma accept_expression_good : forall s, sc_ok s ->
    good (post s) (accept_expression (expr_fuel s) s).
  Proof. intros s Hok. apply (accept_group_good (expr_fuel s)); auto. Qed.

  (* ---------------------------------------------------------------- the state machine *)
  Lemma scan_until_newline_spec : forall s v s', scan_until_newline s = (v, s') -> sc_ok s ->
    post s s'.
  Proof.
    intros s v s' H Hok. unfold scan_until_newline in H.
    destruct (search_newline (suf (sc_pos s))); inversion H; subst; [|apply post_refl; auto].
    split; [apply sc_ok_set_pos; auto; apply cur_adv_ok; apply Hok|apply cur_adv_le].
  Qed.

  Lemma scan_doc_inner_post : forall s, sc_ok s -> post s (scan_doc_inner s).
  Proof.
    intros s Hok. unfold scan_doc_inner.
    match goal with |- context [scan_until_newline ?x] => assert (H1 : post s x); [|set (s1 := x) in *] end.
    { destruct (_ || _); [|apply post_refl; auto].
      destruct (next s) as [c s'] eqn:En. destruct (next_spec _ _ _ En Hok) as (O1 & R1 & _).
      cbn [snd]. split; [apply sc_ok_set_start; auto; apply O1|exact R1]. }
    destruct H1 as [O1 R1].
    destruct (scan_until_newline s1) as [[value|] s2] eqn:E;
      destruct (scan_until_newline_spec _ _ _ E O1) as [O2 R2].
    - split; [apply emit_ok; auto|rewrite rem_emit; lia].
    - split; [apply emit_ok|rewrite rem_emit; unfold rem; simpl; lia].
      apply sc_ok_set_pos; auto. unfold cur_ok; simpl. destruct O2 as (_ & _ & -> & _); lia.
  Qed.

  Definition st_weight (st : statefn) : nat :=
    match st with S_grammar => 1 | S_grammar_doc_inner => 2 | S_grammar_rule => 0 | S_rule_doc_inner => 1 end.
  Definition mu (st : statefn) (s : sc) : nat := 2 * rem s + st_weight st.

  Definition state_post (st : statefn) (s : sc) (a : option statefn * sc) : Prop :=
    sc_ok (snd a) /\ forall st', fst a = Some st' -> mu st' (snd a) < mu st s.

  Lemma scan_grammar_good : forall s, sc_ok s -> good (state_post S_grammar s) (scan_grammar s).
  Proof.
    intros s Hok. unfold scan_grammar.
    gbind skip_trivia_good. intros s1 [O1 R1].
    gbind scan_emit_good; [apply re_lit_total|]. intros [b s2] (O2 & R2 & P2). cbn [fst snd] in *.
    destruct b; unfold state_post, mu; cbn [fst snd good]; (split; [auto|]);
      intros st' E; inversion E; subst; cbn [st_weight].
    - specialize (P2 (re_lit_pos _ _) eq_refl). lia.
    - lia.
  Qed.

  Lemma scan_grammar_rule_good : forall s, sc_ok s ->
    good (state_post S_grammar_rule s) (scan_grammar_rule s).
  Proof.
    intros s Hok. unfold scan_grammar_rule.
    gbind skip_trivia_good. intros s1 [O1 R1].
    gbind scan_emit_good; [apply re_lit_total|]. intros [b s2] (O2 & R2 & P2). cbn [fst snd] in *.
    destruct b.
    { unfold state_post, mu; cbn [fst snd good]. split; [auto|].
      intros st' E; inversion E; subst; cbn [st_weight].
      specialize (P2 (re_lit_pos _ _) eq_refl). lia. }
    gbind skip_trivia_good. intros s3 [O3 R3].
    destruct (strip_prefix _ _); [apply error_good; auto|].
    gbind scan_emit_good; [apply re_identifier_total|]. intros [b s4] (O4 & R4 & _). cbn [fst snd] in *.
    destruct b; cbv beta iota delta [negb].
    2:{ destruct (Nat.eqb _ _); [|apply error_good; auto].
        unfold state_post; cbn [fst snd good]. split; auto. intros; discriminate. }
    gbind skip_trivia_good. intros s5 [O5 R5].
    gbind expect_good. intros s6 [O6 R6].
    gbind skip_trivia_good. intros s7 [O7 R7].
    gbind scan_emit_good; [apply re_modifier_total|]. intros [b s8] (O8 & R8 & _). cbn [fst snd] in *.
    eapply good_bind with (P := post s8).
    { destruct b; [apply skip_trivia_good; auto|apply post_refl; auto]. }
    intros s9 [O9 R9].
    gbind expect_good. intros s10 [O10 R10].
    gbind accept_expression_good. intros s11 [O11 R11].
    gbind expect_good. intros s12 [O12 R12].
    unfold state_post, mu; cbn [fst snd good]. split; [auto|].
    intros st' E; inversion E; subst; cbn [st_weight]. lia.
  Qed.

  Lemma run_state_good : forall st s, sc_ok s -> good (state_post st s) (run_state st s).
  Proof.
    intros st s Hok. destruct st; cbn [run_state].
    - apply scan_grammar_good; auto.
    - destruct (scan_doc_inner_post s Hok) as [O1 R1].
      unfold state_post, mu; cbn [fst snd good]. split; [auto|].
      intros st' E; inversion E; subst; cbn [st_weight]. lia.
    - apply scan_grammar_rule_good; auto.
    - destruct (scan_doc_inner_post s Hok) as [O1 R1].
      unfold state_post, mu; cbn [fst snd good]. split; [auto|].
      intros st' E; inversion E; subst; cbn [st_weight]. lia.
  Qed.

  Lemma scanner_loop_good : forall fuel st s, sc_ok s -> mu st s < fuel ->
    good sc_ok (scanner_loop fuel st s).
  Proof.
    induction fuel as [|fuel IH]; intros st s Hok Hf; [lia|]. cbn [scanner_loop].
    gbind run_state_good. intros [st' s1] [O1 M1]. cbn [fst snd] in *.
    destruct st' as [st'|]; [|exact O1].
    apply IH; auto. specialize (M1 st' eq_refl). lia.
  Qed.

  Lemma tokenize_good : forall grammar, length grammar = L ->
    good (Forall tok_ok) (tokenize grammar).
  Proof.
    intros grammar HL. unfold tokenize.
    eapply good_bind; [apply scanner_loop_good|].
    - unfold sc_ok, cur_ok; simpl. repeat split; auto.
    - unfold mu, rem; simpl. lia.
    - intros s (_ & _ & _ & H). simpl. apply Forall_rev; auto.
  Qed.

  (* ---------------------------------------------------------------- parser.py *)
  Lemma kind_eqb_eq : forall a b, kind_eqb a b = true -> a = b.
  Proof.
    intros a b H. unfold kind_eqb in H. apply N.eqb_eq in H.
    destruct a; destruct b; try reflexivity; discriminate H.
  Qed.

  Section PARSER_PROOFS.
    Variable eof : token.
    Variable builtins : list (text * text).
    Hypothesis eof_kind : tk_kind eof = K_EOI.
    Hypothesis eof_ok : tok_ok eof.

    Definition ts_ok (ts : list token) : Prop := Forall tok_ok ts.
    Definition ppost {A} (ts : list token) (a : A * list token) : Prop :=
      ts_ok (snd a) /\ length (snd a) <= length ts.
    Definition ppost_lt {A} (ts : list token) (a : A * list token) : Prop :=
      ts_ok (snd a) /\ length (snd a) < length ts.

    Lemma current_ok : forall ts, ts_ok ts -> tok_ok (current eof ts).
    Proof. intros [|t r] H; simpl; auto. inversion H; auto. Qed.

    Lemma current_kind_nonempty : forall ts k,
      kind_eqb (tk_kind (current eof ts)) k = true -> k <> K_EOI -> ts <> [].
    Proof.
      intros ts k H Hk ->. simpl in H. rewrite eof_kind in H. apply kind_eqb_eq in H. congruence.
    Qed.

    Lemma tl_ok : forall ts, ts_ok ts -> ts_ok (tl ts).
    Proof. intros; apply Forall_tl; auto. Qed.
    Lemma tl_le : forall (ts : list token), length (tl ts) <= length ts.
    Proof. destruct ts; simpl; lia. Qed.
    Lemma tl_lt : forall (ts : list token), ts <> [] -> length (tl ts) < length ts.
    Proof. destruct ts; simpl; [congruence|lia]. Qed.

    Lemma pnext_spec : forall ts t ts', pnext eof ts = (t, ts') -> ts_ok ts ->
      tok_ok t /\ ts_ok ts' /\ length ts' <= length ts /\ t = current eof ts /\ ts' = tl ts.
    Proof.
      intros [|x r] t ts' H Hok; simpl in H; injection H as <- <-; simpl.
      - split; [exact eof_ok|]. split; [constructor|]. split; [lia|split; reflexivity].
      - inversion Hok; subst. split; [assumption|]. split; [assumption|].
        split; [lia|split; reflexivity].
    Qed.

    Lemma eat_good : forall k ts, ts_ok ts ->
      good (fun a => tok_ok (fst a) /\ tk_kind (fst a) = k /\ ts_ok (snd a)
                     /\ length (snd a) <= length ts
                     /\ (k <> K_EOI -> length (snd a) < length ts)) (eat eof k ts).
    Proof.
      intros k ts Hok. unfold eat. destruct (pnext eof ts) as [t ts'] eqn:E.
      destruct (pnext_spec _ _ _ E Hok) as (H1 & H2 & H3 & H4 & H5).
      destruct (kind_eqb (tk_kind t) k) eqn:Ek; cbv beta iota delta [negb]; [|apply H1].
      cbn [good fst snd]. apply kind_eqb_eq in Ek.
      repeat (split; [assumption|]). intros Hk. subst ts'. apply tl_lt.
      intros ->. simpl in H4. subst t. congruence.
    Qed.

    Lemma token_int_good : forall t, tok_ok t -> good (fun _ => True) (token_int t).
    Proof.
      intros t H. unfold tok_ok in H. unfold token_int.
      destruct (py_int _); [destruct (Z.ltb _ _)|]; simpl; auto.
    Qed.

    Ltac eat_step t ts H :=
      eapply good_bind; [eapply eat_good; eauto|];
      intros [t ts] H; cbn [fst snd] in H.

    Lemma parse_repeat_expression_good : forall expr ts, ts_ok ts ->
      good (ppost ts) (parse_repeat_expression eof expr ts).
    Proof.
      intros expr ts Hok. unfold parse_repeat_expression.
      destruct (pnext eof ts) as [t ts1] eqn:E.
      destruct (pnext_spec _ _ _ E Hok) as (T1 & O1 & R1 & _).
      destruct (kind_eqb (tk_kind t) K_NUMBER).
      - destruct (cur_kind_is eof ts1 K_RBRACE).
        + gbind token_int_good. intros n _. unfold ppost; cbn [good fst snd].
          split; [apply tl_ok; auto|]. pose proof (tl_le ts1). lia.
        + eat_step t2 ts2 H2. destruct H2 as (_ & _ & O2 & R2 & _).
          destruct (cur_kind_is eof ts2 K_RBRACE).
          * gbind token_int_good. intros n _. unfold ppost; cbn [good fst snd].
            split; [apply tl_ok; auto|]. pose proof (tl_le ts2). lia.
          * eat_step t3 ts3 H3. destruct H3 as (T3 & _ & O3 & R3 & _).
            eat_step t4 ts4 H4. destruct H4 as (_ & _ & O4 & R4 & _).
            gbind token_int_good. intros m _. gbind token_int_good. intros n _.
            unfold ppost; cbn [good fst snd]. split; auto. lia.
      - destruct (kind_eqb (tk_kind t) K_COMMA); [|apply T1].
        eat_step t2 ts2 H2. destruct H2 as (T2 & _ & O2 & R2 & _).
        eat_step t3 ts3 H3. destruct H3 as (_ & _ & O3 & R3 & _).
        gbind token_int_good. intros n _.
        unfold ppost; cbn [good fst snd]. split; auto. lia.
    Qed.

    Lemma parse_postfix_expression_good : forall expr ts, ts_ok ts ->
      good (fun a => ts_ok (snd a) /\ length (snd a) <= length ts
                     /\ (fst a <> None -> length (snd a) < length ts))
           (parse_postfix_expression eof expr ts).
    Proof.
      intros expr ts Hok. unfold parse_postfix_expression.
      assert (Hs : forall k (e : pexpr), kind_eqb (tk_kind (current eof ts)) k = true -> k <> K_EOI ->
                ts_ok (snd (Some e, tl ts)) /\ length (snd (Some e, tl ts)) <= length ts
                /\ (fst (Some e, tl ts) <> None -> length (snd (Some e, tl ts)) < length ts)).
      { intros k e Hk Hne. cbn [fst snd]. pose proof (current_kind_nonempty _ _ Hk Hne) as Hn.
        split; [apply tl_ok; auto|]. pose proof (tl_lt ts Hn). split; [lia|intros; lia]. }
      destruct (kind_eqb _ K_OPTION_OP) eqn:E1; [cbn [good]; eapply Hs; eauto; discriminate|].
      destruct (kind_eqb _ K_REPEAT_OP) eqn:E2; [cbn [good]; eapply Hs; eauto; discriminate|].
      destruct (kind_eqb _ K_REPEAT_ONCE_OP) eqn:E3; [cbn [good]; eapply Hs; eauto; discriminate|].
      destruct (kind_eqb _ K_LBRACE) eqn:E4.
      - pose proof (current_kind_nonempty _ _ E4 ltac:(discriminate)) as Hn.
        pose proof (tl_lt ts Hn).
        eapply good_bind; [apply parse_repeat_expression_good; apply tl_ok; auto|].
        intros [e ts1] [O1 R1]. cbn [fst snd good] in *. split; auto. split; [lia|intros; lia].
      - cbn [good fst snd]. split; auto. split; [lia|congruence].
    Qed.

    Lemma postfix_loop_good : forall fuel e ts, ts_ok ts -> length ts < fuel ->
      good (ppost ts) (postfix_loop eof fuel e ts).
    Proof.
      induction fuel as [|fuel IH]; intros e ts Hok Hf; [lia|]. cbn [postfix_loop].
      gbind parse_postfix_expression_good. intros [o ts1] (O1 & R1 & T1). cbn [fst snd] in *.
      destruct o as [e'|].
      - eapply good_weaken; [apply IH; auto|].
        + assert (length ts1 < length ts) by (apply T1; discriminate). lia.
        + intros a [H1 H2]. split; auto. lia.
      - unfold ppost; cbn [good fst snd]. split; auto.
    Qed.

    Lemma parse_peek_expression_good : forall tag ts, ts_ok ts ->
      good (ppost ts) (parse_peek_expression eof tag ts).
    Proof.
      intros tag ts Hok. unfold parse_peek_expression.
      destruct (cur_kind_is eof ts K_LBRACKET); cbv beta iota delta [negb].
      2:{ unfold ppost; cbn [good fst snd]. split; auto. }
      eat_step t1 ts1 H1. destruct H1 as (_ & _ & O1 & R1 & _).
      eapply good_bind with (P := ppost ts1).
      { destruct (cur_kind_is eof ts1 K_INTEGER); [|unfold ppost; cbn [good fst snd]; split; auto].
        destruct (pnext eof ts1) as [t ts2] eqn:E.
        destruct (pnext_spec _ _ _ E O1) as (T2 & O2 & R2 & _).
        gbind token_int_good. intros z _. unfold ppost; cbn [good fst snd]. split; auto. }
      intros [start ts2] [O2 R2]. cbn [fst snd] in *.
      eat_step t3 ts3 H3. destruct H3 as (_ & _ & O3 & R3 & _).
      eapply good_bind with (P := ppost ts3).
      { destruct (cur_kind_is eof ts3 K_INTEGER); [|unfold ppost; cbn [good fst snd]; split; auto].
        destruct (pnext eof ts3) as [t ts4] eqn:E.
        destruct (pnext_spec _ _ _ E O3) as (T4 & O4 & R4 & _).
        gbind token_int_good. intros z _. unfold ppost; cbn [good fst snd]. split; auto. }
      intros [stop ts4] [O4 R4]. cbn [fst snd] in *.
      eat_step t5 ts5 H5. destruct H5 as (_ & _ & O5 & R5 & _).
      unfold ppost; cbn [good fst snd]. split; auto. lia.
    Qed.

    Ltac pfin := unfold ppost, ppost_lt; cbn [good fst snd]; split; [auto|try lia].

    Lemma not_eoi_nonempty : forall ts,
      kind_eqb (tk_kind (current eof ts)) K_EOI = false -> ts <> [].
    Proof. intros ts H ->. simpl in H. rewrite eof_kind in H. discriminate. Qed.

    Lemma kind_eqb_refl : forall k, kind_eqb k k = true.
    Proof. intros; unfold kind_eqb; apply N.eqb_refl. Qed.

    (* parse_expression / infix_loop / parse_infix_expression / infix_run *)
    Lemma parse_group_good : forall fuel,
      (forall prec ts, ts_ok ts -> 4 * length ts + 4 <= fuel ->
         good (ppost ts) (parse_expression eof builtins fuel prec ts)) /\
      (forall prec l ts, ts_ok ts -> 4 * length ts + 3 <= fuel ->
         good (ppost ts) (infix_loop eof builtins fuel prec l ts)) /\
      (forall l ts, ts_ok ts -> 4 * length ts + 2 <= fuel ->
         good (ppost_lt ts) (parse_infix_expression eof builtins fuel l ts)) /\
      (forall k prec ro ts, k <> K_EOI -> ts_ok ts -> 4 * length ts + 1 <= fuel ->
         good (fun a => ts_ok (snd a) /\ length (snd a) <= length ts
                        /\ (cur_kind_is eof ts k = true -> length (snd a) < length ts))
              (infix_run eof builtins fuel k prec ro ts)).
    Proof.
      induction fuel as [|fuel (IHPE & IHIL & IHPI & IHRUN)].
      { repeat split; intros; lia. }
      split; [|split; [|split]].
      - (* parse_expression *)
        intros prec ts Hok Hf.
        cbn [parse_expression infix_loop parse_infix_expression infix_run].
        set (ts1 := if cur_kind_is eof ts K_CHOICE_OP then snd (pnext eof ts) else ts).
        assert (H1 : ts_ok ts1 /\ length ts1 <= length ts).
        { subst ts1. destruct (cur_kind_is eof ts K_CHOICE_OP); [|auto].
          destruct (pnext eof ts) as [t ts'] eqn:E.
          destruct (pnext_spec _ _ _ E Hok) as (_ & A & B & _). auto. }
        destruct H1 as [O1 R1]. clearbody ts1.
        eapply good_bind with (P := ppost ts1).
        { destruct (cur_kind_is eof ts1 K_TAG); [|pfin].
          destruct (pnext eof ts1) as [t ts2] eqn:E.
          destruct (pnext_spec _ _ _ E O1) as (_ & O2 & R2 & _).
          eat_step t3 ts3 H3. destruct H3 as (_ & _ & O3 & R3 & _). pfin. }
        intros [tag ts2] [O2 R2]. cbn [fst snd] in *.
        assert (Hne : forall k, kind_eqb (tk_kind (current eof ts2)) k = true -> k <> K_EOI ->
                      ts_ok (tl ts2) /\ length (tl ts2) < length ts2).
        { intros k Hk Hn. split; [apply tl_ok; auto|].
          apply tl_lt. eapply current_kind_nonempty; eauto. }
        eapply good_bind with (P := ppost ts2).
        { destruct (kind_eqb _ K_STRING) eqn:E1.
          { destruct (pnext eof ts2) as [t ts3] eqn:E.
            destruct (pnext_spec _ _ _ E O2) as (_ & O3 & R3 & _). pfin. }
          destruct (kind_eqb _ K_STRING_CI) eqn:E2.
          { destruct (pnext eof ts2) as [t ts3] eqn:E.
            destruct (pnext_spec _ _ _ E O2) as (_ & O3 & R3 & _). pfin. }
          destruct (kind_eqb _ K_LPAREN) eqn:E3.
          { destruct (Hne _ E3 ltac:(discriminate)) as [O3 R3].
            gbind IHPE; [lia|]. intros [e ts4] [O4 R4]. cbn [fst snd] in *.
            eat_step t5 ts5 H5. destruct H5 as (_ & _ & O5 & R5 & _). pfin. }
          destruct (kind_eqb _ K_IDENTIFIER) eqn:E4.
          { destruct (pnext eof ts2) as [t ts3] eqn:E.
            destruct (pnext_spec _ _ _ E O2) as (_ & O3 & R3 & _).
            destruct (lookup (tk_value t) builtins); destruct (negb _); cbn [andb]; pfin. }
          destruct (kind_eqb _ K_PUSH_LITERAL) eqn:E5.
          { destruct (Hne _ E5 ltac:(discriminate)) as [O3 R3].
            eat_step t4 ts4 H4. destruct H4 as (_ & _ & O4 & R4 & _).
            eat_step t5 ts5 H5. destruct H5 as (_ & _ & O5 & R5 & _).
            eat_step t6 ts6 H6. destruct H6 as (_ & _ & O6 & R6 & _). pfin. }
          destruct (kind_eqb _ K_PUSH) eqn:E6.
          { destruct (Hne _ E6 ltac:(discriminate)) as [O3 R3].
            eat_step t4 ts4 H4. destruct H4 as (_ & _ & O4 & R4 & _).
            gbind IHPE; [lia|]. intros [e ts5] [O5 R5]. cbn [fst snd] in *.
            eat_step t6 ts6 H6. destruct H6 as (_ & _ & O6 & R6 & _). pfin. }
          destruct (kind_eqb _ K_PEEK) eqn:E7.
          { destruct (Hne _ E7 ltac:(discriminate)) as [O3 R3].
            eapply good_weaken; [apply parse_peek_expression_good; auto|].
            intros a [A B]. split; auto. lia. }
          destruct (kind_eqb _ K_PEEK_ALL) eqn:E8.
          { destruct (Hne _ E8 ltac:(discriminate)) as [O3 R3]. pfin. }
          destruct (kind_eqb _ K_POP) eqn:E9.
          { destruct (Hne _ E9 ltac:(discriminate)) as [O3 R3]. pfin. }
          destruct (kind_eqb _ K_DROP) eqn:E10.
          { destruct (Hne _ E10 ltac:(discriminate)) as [O3 R3]. pfin. }
          destruct (kind_eqb _ K_POP_ALL) eqn:E11.
          { destruct (Hne _ E11 ltac:(discriminate)) as [O3 R3]. pfin. }
          destruct (kind_eqb _ K_CHAR) eqn:E12.
          { pose proof (current_ok ts2 O2) as Hstart. unfold tok_ok in Hstart.
            eat_step t3 ts3 H3. destruct H3 as (T3 & K3 & O3 & R3 & _).
            gbind unescape_string_good.
            intros start _.
            eat_step t4 ts4 H4. destruct H4 as (_ & _ & O4 & R4 & _).
            eat_step t5 ts5 H5. destruct H5 as (T5 & K5 & O5 & R5 & _).
            gbind unescape_string_good.
            intros stop _. pfin. }
          destruct (kind_eqb _ K_POSITIVE_PREDICATE) eqn:E13.
          { destruct (Hne _ E13 ltac:(discriminate)) as [O3 R3].
            gbind IHPE; [lia|]. intros [e ts4] [O4 R4]. cbn [fst snd] in *. pfin. }
          destruct (kind_eqb _ K_NEGATIVE_PREDICATE) eqn:E14.
          { destruct (Hne _ E14 ltac:(discriminate)) as [O3 R3].
            gbind IHPE; [lia|]. intros [e ts4] [O4 R4]. cbn [fst snd] in *. pfin. }
          exact (current_ok ts2 O2). }
        intros [lft ts3] [O3 R3]. cbn [fst snd] in *.
        gbind postfix_loop_good. intros [lft' ts4] [O4 R4]. cbn [fst snd] in *.
        eapply good_weaken; [apply IHIL; auto; lia|].
        intros a [A B]. split; auto. lia.
      - (* infix_loop *)
        intros prec l ts Hok Hf.
        cbn [parse_expression infix_loop parse_infix_expression infix_run].
        destruct (kind_eqb (tk_kind (current eof ts)) K_EOI) eqn:Ee; cbn [orb]; [pfin|].
        destruct (_ || _); [pfin|].
        gbind IHPI; [lia|]. intros [l' ts1] [O1 R1]. cbn [fst snd] in *.
        eapply good_weaken; [apply IHIL; auto; lia|].
        intros a [A B]. split; auto. lia.
      - (* parse_infix_expression *)
        intros l ts Hok Hf.
        cbn [parse_expression infix_loop parse_infix_expression infix_run].
        destruct (is_infix (tk_kind (current eof ts))) eqn:Ei; cbv beta iota delta [negb].
        2:{ exact (current_ok ts Hok). }
        assert (Hk : tk_kind (current eof ts) <> K_EOI) by (intros E; rewrite E in Ei; discriminate).
        gbind IHRUN; [lia|]. intros [operands ts1] (O1 & R1 & T1). cbn [fst snd] in *.
        assert (length ts1 < length ts) by (apply T1; unfold cur_kind_is; apply kind_eqb_refl).
        destruct (kind_eqb _ K_CHOICE_OP); pfin.
      - (* infix_run *)
        intros k prec ro ts Hk Hok Hf.
        cbn [parse_expression infix_loop parse_infix_expression infix_run].
        destruct (cur_kind_is eof ts k) eqn:Ec.
        + pose proof (tl_lt ts (current_kind_nonempty _ _ Ec Hk)) as Hlt.
          gbind IHPE; [apply tl_ok; auto|lia|]. intros [e ts1] [O1 R1]. cbn [fst snd] in *.
          eapply good_weaken; [apply IHRUN; auto; lia|].
          intros a (A & B & _). split; auto. split; [lia|intros; lia].
        + cbn [good fst snd]. split; auto. split; [lia|intros; discriminate].
    Qed.

    Lemma parse_expression_good : forall prec ts, ts_ok ts ->
      good (ppost ts) (parse_expression eof builtins (pexpr_fuel ts) prec ts).
    Proof. intros. apply (parse_group_good (pexpr_fuel ts)); auto. Qed.

    Lemma doc_loop_good : forall fuel k rdoc ts, k <> K_EOI -> ts_ok ts -> length ts < fuel ->
      good (ppost ts) (doc_loop eof fuel k rdoc ts).
    Proof.
      induction fuel as [|fuel IH]; intros k rdoc ts Hk Hok Hf; [lia|]. cbn [doc_loop].
      destruct (cur_kind_is eof ts k) eqn:E; [|pfin].
      pose proof (tl_lt ts (current_kind_nonempty _ _ E Hk)) as Hlt.
      eapply good_bind; [eapply eat_good; apply tl_ok; auto|].
      intros [t ts1] (_ & _ & O1 & R1 & _). cbn [fst snd] in *.
      eapply good_weaken; [apply IH; auto; lia|]. intros a [A B]. split; auto. lia.
    Qed.

    Lemma parse_rules_loop_good : forall fuel rules ts, ts_ok ts -> length ts < fuel ->
      good (fun _ => True) (parse_rules_loop eof builtins fuel rules ts).
    Proof.
      induction fuel as [|fuel IH]; intros rules ts Hok Hf; [lia|]. cbn [parse_rules_loop].
      destruct (cur_kind_is eof ts K_EOI); [exact I|].
      gbind doc_loop_good; [discriminate|]. intros [rule_doc ts1] [O1 R1]. cbn [fst snd] in *.
      destruct (cur_kind_is eof ts1 K_EOI); [exact I|].
      eat_step t2 ts2 H2. destruct H2 as (_ & _ & O2 & _ & R2). specialize (R2 ltac:(discriminate)).
      eat_step t3 ts3 H3. destruct H3 as (_ & _ & O3 & R3 & _).
      destruct (parse_modifier eof ts3) as [modifier ts4] eqn:Em.
      assert (O4 : ts_ok ts4 /\ length ts4 <= length ts3).
      { unfold parse_modifier in Em. destruct (cur_kind_is eof ts3 K_MODIFIER).
        - destruct (pnext eof ts3) as [t ts'] eqn:E. inversion Em; subst.
          destruct (pnext_spec _ _ _ E O3) as (_ & A & B & _). auto.
        - inversion Em; subst; auto. }
      destruct O4 as [O4 R4].
      eat_step t5 ts5 H5. destruct H5 as (_ & _ & O5 & R5 & _).
      gbind parse_expression_good. intros [expression ts6] [O6 R6]. cbn [fst snd] in *.
      eat_step t7 ts7 H7. destruct H7 as (_ & _ & O7 & R7 & _).
      apply IH; auto. lia.
    Qed.

    Lemma parse_good : forall ts, ts_ok ts -> good (fun _ => True) (parse eof builtins ts).
    Proof.
      intros ts Hok. unfold parse.
      gbind doc_loop_good; [discriminate|]. intros [d ts1] [O1 R1]. cbn [fst snd] in *.
      apply parse_rules_loop_good; auto.
    Qed.

  End PARSER_PROOFS.

End GOOD.

(* ------------------------------------------------------------------ *)
(** * The theorems *)

Definition front_res (grammar : text) : res (list (text * prule)) :=
  let* tokens := tokenize grammar in
  parse (mktoken K_EOI [] (length grammar)) BUILTIN tokens.

Lemma front_unfold : forall t,
  front t = match front_res t with
            | Ok rules => FOk (merge_rules rules)
            | Syn p => FSyntax p
            | Crash k => FCrash k
            | OutOfFuel => FFuel
            end.
Proof. reflexivity. Qed.

Lemma front_good : forall t, good (length t) (fun _ => True) (front_res t).
Proof.
  intros t. unfold front_res.
  eapply good_bind; [apply tokenize_good; auto|].
  intros tokens Hok. apply parse_good; auto.
  unfold tok_ok; simpl; lia.
Qed.

(* The input on which the library used to raise UnicodeEncodeError (`digits.encode()` on a lone
   surrogate, grammar  a = { "\x<U+D800>a" } ) now yields a syntax error at the string's start. *)
Example front_former_crash_witness :
  front [97;32;61;32;123;32;34;92;120;55296;97;34;32;125]%N = FSyntax 7.
Proof. vm_compute. reflexivity. Qed.

(* For EVERY text the front end as modelled returns a rule table or a grammar error: no other
   exception, and the fuel `front` supplies is always enough. *)
Theorem front_total : forall t,
  match front t with FOk _ | FSyntax _ => True | FCrash _ | FFuel => False end.
Proof.
  intros t. rewrite front_unfold. pose proof (front_good t) as H.
  destruct (front_res t); simpl in *; tauto.
Qed.

Theorem front_error_position : forall t p, front t = FSyntax p -> p <= length t.
Proof.
  intros t p. rewrite front_unfold. pose proof (front_good t) as H.
  destruct (front_res t); simpl in *; intros E; inversion E; subst; auto.
Qed.

Print Assumptions front_total.
Print Assumptions front_error_position.
