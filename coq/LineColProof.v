(* LineColProof.v — Position.line_col agrees with the text: for texts whose only line breaks
   are \n, line_col t p = (1 + number of line breaks before p, 1 + distance from the last
   line break), for every 0 <= p <= len t. *)
From Coq Require Import List NArith Arith Bool Lia.
Import ListNotations.
From PP Require Import Base LineCol.

Lemma nl_is_break : is_break 10 = true. Proof. reflexivity. Qed.

Lemma nl_only_cons c t : nl_only (c :: t) = true ->
  (c = 10%N \/ is_break c = false) /\ nl_only t = true.
Proof.
  unfold nl_only. cbn [forallb]. intros H. apply andb_prop in H. destruct H as [H1 H2]. split; [|exact H2].
  apply orb_prop in H1. destruct H1 as [H1|H1].
  - left. apply N.eqb_eq. exact H1.
  - right. destruct (is_break c); [cbn in H1; discriminate|reflexivity].
Qed.

Lemma not_break_not_cr c : is_break c = false -> N.eqb c 10 = false.
Proof. intros H. destruct (N.eqb_spec c 10) as [->|]; [discriminate|reflexivity]. Qed.

(* one step of split_aux on an nl-only text *)
Lemma split_aux_nl cur t : split_aux cur (10%N :: t) = rev (10%N :: cur) :: split_aux [] t.
Proof. reflexivity. Qed.
Lemma split_aux_other cur c t : is_break c = false -> split_aux cur (c :: t) = split_aux (c :: cur) t.
Proof. intros H. cbn [split_aux]. rewrite H. reflexivity. Qed.

(* B: the position lies in the part of the current line that has been scanned already *)
Lemma lc_inside : forall t cur pos start i, nl_only t = true ->
  start <= pos -> pos < start + length cur ->
  lc_loop (split_aux cur t) pos start i = Some (i + 1, pos - start + 1).
Proof.
  induction t as [|c t IH]; intros cur pos start i Hn Hs Hp.
  - cbn [split_aux]. destruct cur as [|x cur]; [cbn in Hp; lia|].
    cbn [lc_loop]. rewrite rev_length.
    destruct (Nat.ltb pos (start + length (x :: cur))) eqn:E; [reflexivity|apply Nat.ltb_ge in E; lia].
  - apply nl_only_cons in Hn. destruct Hn as [[->|Hc] Hn].
    + rewrite split_aux_nl. cbn [lc_loop]. rewrite rev_length.
      destruct (Nat.ltb pos (start + length (10%N :: cur))) eqn:E; [reflexivity|].
      apply Nat.ltb_ge in E. cbn [length] in E. lia.
    + rewrite split_aux_other by exact Hc. apply IH; [exact Hn|exact Hs|cbn [length]; lia].
Qed.

(* A: the position lies q characters beyond the scanned part *)
Lemma lc_ahead : forall t cur pos start i, nl_only t = true ->
  start + length cur <= pos ->
  let q := pos - (start + length cur) in
  lc_loop (split_aux cur t) pos start i =
    if Nat.ltb q (length t) then Some (walk t q (i + 1) (length cur + 1)) else None.
Proof.
  induction t as [|c t IH]; intros cur pos start i Hn Hp q.
  - cbn [split_aux length]. destruct (Nat.ltb_spec q 0); [lia|].
    destruct cur as [|x cur]; [reflexivity|].
    cbn [lc_loop]. rewrite rev_length.
    destruct (Nat.ltb_spec pos (start + length (x :: cur))); [lia|reflexivity].
  - apply nl_only_cons in Hn. destruct Hn as [[->|Hc] Hn].
    + rewrite split_aux_nl. cbn [lc_loop]. rewrite rev_length. cbn [length].
      destruct (Nat.ltb_spec pos (start + S (length cur))) as [L|L].
      * assert (q = 0) by (unfold q; lia). rewrite H. cbn.
        f_equal. f_equal. lia.
      * specialize (IH [] pos (start + S (length cur)) (i + 1) Hn).
        cbn [length] in IH. rewrite Nat.add_0_r in IH. specialize (IH L).
        rewrite IH. replace (pos - (start + S (length cur))) with (q - 1) by (unfold q; lia).
        assert (Q : 1 <= q) by (unfold q; lia).
        destruct (Nat.ltb_spec (q - 1) (length t)), (Nat.ltb_spec q (S (length t))); try lia; [|reflexivity].
        destruct q as [|q']; [lia|]. cbn [walk]. rewrite N.eqb_refl.
        replace (S q' - 1) with q' by lia. cbn [length]. rewrite Nat.add_0_l. reflexivity.
    + rewrite split_aux_other by exact Hc.
      destruct (Nat.eq_dec q 0) as [Q0|Q0].
      * rewrite lc_inside by (try exact Hn; cbn [length]; unfold q in Q0; lia).
        rewrite Q0. cbn. f_equal. f_equal. unfold q in Q0. lia.
      * specialize (IH (c :: cur) pos start i Hn). cbn [length] in IH.
        assert (L : start + S (length cur) <= pos) by (unfold q in Q0; lia).
        specialize (IH L). rewrite IH.
        replace (pos - (start + S (length cur))) with (q - 1) by (unfold q; lia).
        cbn [length].
        destruct (Nat.ltb_spec (q - 1) (length t)), (Nat.ltb_spec q (S (length t))); try lia; [|reflexivity].
        destruct q as [|q']; [lia|]. cbn [walk]. rewrite (not_break_not_cr c Hc).
        replace (S q' - 1) with q' by lia. f_equal. f_equal. lia.
Qed.

Lemma total_len_split : forall t cur, nl_only t = true ->
  total_len (split_aux cur t) = length cur + length t.
Proof.
  induction t as [|c t IH]; intros cur Hn.
  - cbn [split_aux]. destruct cur; cbn; [reflexivity|]. rewrite app_length, rev_length. cbn. lia.
  - apply nl_only_cons in Hn. destruct Hn as [[->|Hc] Hn].
    + rewrite split_aux_nl. cbn [total_len fold_right]. fold (total_len (split_aux [] t)).
      rewrite (IH [] Hn), rev_length. cbn. lia.
    + rewrite split_aux_other by exact Hc. rewrite (IH (c :: cur) Hn). cbn. lia.
Qed.

Definition nobreak (cur : text) : Prop := forall c, In c cur -> is_break c = false.

Lemma ends_break_rev_cons c cur : ends_with_break (rev (c :: cur)) = is_break c.
Proof. unfold ends_with_break. rewrite rev_involutive. reflexivity. Qed.

(* the state of the walk at the end of the text, read off the list of lines *)
Lemma walk_end : forall t cur line, nl_only t = true -> nobreak cur ->
  walk t (length t) line (length cur + 1) =
    match rev (split_aux cur t) with
    | last :: _ =>
        if ends_with_break last then (line + length (split_aux cur t), 1)
        else (line + length (split_aux cur t) - 1, length last + 1)
    | [] => (line, 1)
    end.
Proof.
  induction t as [|c t IH]; intros cur line Hn Hc.
  - cbn [split_aux length walk]. destruct cur as [|x cur]; [reflexivity|].
    change (rev [rev (x :: cur)]) with [rev (x :: cur)]. cbv beta iota. rewrite ends_break_rev_cons.
    rewrite (Hc x (or_introl eq_refl)). rewrite rev_length. cbn [length].
    f_equal; lia.
  - apply nl_only_cons in Hn. destruct Hn as [[->|Hb] Hn].
    + rewrite split_aux_nl. cbn [length walk]. rewrite N.eqb_refl.
      specialize (IH [] (line + 1) Hn). cbn [length] in IH. rewrite Nat.add_0_l in IH.
      rewrite IH by (intros x []).
      change (rev (rev (10%N :: cur) :: split_aux [] t))
        with (rev (split_aux [] t) ++ [rev (10%N :: cur)]).
      destruct (rev (split_aux [] t)) as [|last rest] eqn:E.
      * cbn [app]. cbv beta iota. rewrite ends_break_rev_cons, nl_is_break.
        assert (L : length (split_aux [] t) = 0).
        { rewrite <- (rev_length (split_aux [] t)), E. reflexivity. }
        cbn [length]. rewrite L. f_equal; lia.
      * cbn [app]. destruct (ends_with_break last); cbn [length]; f_equal; lia.
    + rewrite split_aux_other by exact Hb. cbn [length walk]. rewrite (not_break_not_cr c Hb).
      specialize (IH (c :: cur) line Hn). cbn [length] in IH.
      replace (length cur + 1 + 1) with (S (length cur) + 1) by lia.
      apply IH. intros x [<-|Hx]; [exact Hb|apply Hc; exact Hx].
Qed.

(* C14: line_col is the walk, for every offset up to and including the end of the text *)
Theorem line_col_spec : forall t p, nl_only t = true -> p <= length t ->
  line_col t p = spec_line_col t p.
Proof.
  intros t p Hn Hp. unfold line_col, spec_line_col, split_keep.
  pose proof (lc_ahead t [] p 0 0 Hn) as A. cbn [length] in A.
  rewrite Nat.add_0_l, Nat.sub_0_r in A. specialize (A (Nat.le_0_l p)). rewrite A.
  destruct (Nat.ltb_spec p (length t)) as [L|L]; [reflexivity|].
  assert (p = length t) by lia. subst p.
  rewrite (total_len_split t [] Hn). cbn [length]. rewrite Nat.add_0_l.
  pose proof (walk_end t [] 1 Hn) as W. cbn [length] in W. rewrite Nat.add_0_l in W.
  rewrite W by (intros x []).
  destruct (rev (split_aux [] t)) as [|last rest] eqn:E.
  - assert (L0 : length (split_aux [] t) = 0).
    { rewrite <- (rev_length (split_aux [] t)), E. reflexivity. }
    rewrite L0. f_equal. lia.
  - destruct (ends_with_break last) eqn:EB.
    + f_equal; lia.
    + assert (LL : length last <= length t).
      { pose proof (total_len_split t [] Hn) as T. cbn [length] in T.
        assert (In last (split_aux [] t)) by (apply in_rev; rewrite E; left; reflexivity).
        clear -T H. revert T H. generalize (split_aux [] t). intros ls.
        revert t. induction ls as [|l ls IH]; intros t T H; [destruct H|].
        cbn [total_len fold_right] in T. fold (total_len ls) in T.
        destruct H as [->|H]; [lia|].
        specialize (IH (skipn (length l) t)). rewrite skipn_length in IH.
        assert (total_len ls = 0 + (length t - length l)) by lia.
        specialize (IH H0 H). lia. }
      assert (L1 : 1 <= length (split_aux [] t)).
      { rewrite <- (rev_length (split_aux [] t)), E. cbn. lia. }
      f_equal; lia.
Qed.

(* the walk is what the property says: 1 + number of line breaks before p, and 1 + distance
   from the last line break *)
Fixpoint count_nl (t : text) : nat :=
  match t with [] => 0 | c :: t' => (if N.eqb c 10 then 1 else 0) + count_nl t' end.

(* length of the part of t after its last \n (t itself when there is none) *)
Fixpoint after_last_nl (t : text) (acc : nat) : nat :=
  match t with [] => acc | c :: t' => if N.eqb c 10 then after_last_nl t' 0 else after_last_nl t' (S acc) end.

Lemma walk_counts : forall t p line col, p <= length t ->
  walk t p line col = (line + count_nl (firstn p t), 1 + after_last_nl (firstn p t) (col - 1)) \/ col = 0.
Proof.
  induction t as [|c t IH]; intros p line col Hp.
  - destruct p; [|cbn in Hp; lia]. cbn. destruct col; [right; reflexivity|left; f_equal; lia].
  - destruct p as [|p]; [cbn; destruct col; [right; reflexivity|left; f_equal; lia]|].
    cbn [walk firstn count_nl after_last_nl]. cbn [length] in Hp.
    destruct (N.eqb c 10).
    + destruct (IH p (line + 1) 1 ltac:(lia)) as [E|E]; [|discriminate].
      destruct col; [right; reflexivity|left]. rewrite E. cbn. f_equal. lia.
    + destruct col; [right; reflexivity|].
      destruct (IH p line (S col + 1) ltac:(lia)) as [E|E]; [|lia].
      left. rewrite E. f_equal. f_equal. f_equal. lia.
Qed.

Theorem spec_line_col_counts : forall t p, p <= length t ->
  spec_line_col t p = (1 + count_nl (firstn p t), 1 + after_last_nl (firstn p t) 0).
Proof.
  intros t p Hp. unfold spec_line_col.
  destruct (walk_counts t p 1 1 Hp) as [E|E]; [exact E|discriminate].
Qed.

(* offsets and line/column determine each other: the walk is injective in p *)
Lemma walk_col_bound : forall t p line col, p <= length t -> 1 <= col ->
  1 <= snd (walk t p line col).
Proof.
  induction t as [|c t IH]; intros p line col Hp Hc.
  - destruct p; cbn; exact Hc.
  - destruct p as [|p]; [cbn; exact Hc|]. cbn [walk]. cbn [length] in Hp.
    destruct (N.eqb c 10); apply IH; lia.
Qed.

Lemma walk_progress : forall t p line col, p <= length t ->
  line <= fst (walk t p line col) /\
  (fst (walk t p line col) = line -> snd (walk t p line col) = col + p).
Proof.
  induction t as [|c t IH]; intros p line col Hp.
  - destruct p; [|cbn in Hp; lia]. cbn. split; [lia|intros; lia].
  - destruct p as [|p]; [cbn; split; [lia|intros; lia]|]. cbn [walk]. cbn [length] in Hp.
    destruct (N.eqb c 10).
    + destruct (IH p (line + 1) 1 ltac:(lia)) as [A B]. split; [lia|intros E; lia].
    + destruct (IH p line (col + 1) ltac:(lia)) as [A B]. split; [exact A|intros E; rewrite (B E); lia].
Qed.

Lemma walk_add : forall t p q line col, p + q <= length t ->
  walk t (p + q) line col =
  walk (skipn p t) q (fst (walk t p line col)) (snd (walk t p line col)).
Proof.
  induction t as [|c t IH]; intros p q line col H.
  - cbn in H. assert (p = 0) by lia. assert (q = 0) by lia. subst. reflexivity.
  - destruct p as [|p]; [reflexivity|]. cbn [Nat.add walk skipn]. cbn [length] in H.
    destruct (N.eqb c 10); apply IH; lia.
Qed.

Theorem line_col_injective : forall t p q, p <= length t -> q <= length t ->
  spec_line_col t p = spec_line_col t q -> p = q.
Proof.
  assert (W : forall t p d, p + S d <= length t -> spec_line_col t p <> spec_line_col t (p + S d)).
  { intros t p d H E. unfold spec_line_col in E. rewrite (walk_add t p (S d)) in E by exact H.
    remember (walk t p 1 1) as r eqn:R. destruct r as [l c].
    cbn [fst snd] in E.
    assert (Hc : 1 <= c).
    { pose proof (walk_col_bound t p 1 1 ltac:(lia) (le_n 1)) as B. rewrite <- R in B. exact B. }
    pose proof (walk_progress (skipn p t) (S d) l c ltac:(rewrite skipn_length; lia)) as [A B].
    rewrite <- E in A, B. cbn [fst snd] in A, B. specialize (B eq_refl). lia. }
  intros t p q Hp Hq E.
  destruct (Nat.lt_trichotomy p q) as [L|[L|L]]; [|exact L|].
  - exfalso. apply (W t p (q - p - 1)); [lia|]. replace (p + S (q - p - 1)) with q by lia. exact E.
  - exfalso. apply (W t q (p - q - 1)); [lia|]. replace (q + S (p - q - 1)) with p by lia.
    symmetry. exact E.
Qed.
