(* MachineCor.v — the properties proved about the reference semantics `parse` (tree
   well-formedness C06, tags, failure position C13, start position C16) transferred to the two
   machine models: the interpreter `iparse` (Interp.v) and the generated code `gparse` (Gen.v),
   as corollaries of the refinement theorems InterpProof.iparse_refines, GenProof.gparse_refines
   and GenProof.gparse_inl, and of the termination transfer GenProof.iparse_terminates /
   gparse_terminates. *)
From Coq Require Import List NArith ZArith Bool Arith Lia.
Import ListNotations.
From PP Require Import Base Syntax Spec SpecMono SpecSyn SpecWf SpecShift SpecTags
  Interp InterpProof Gen GenProof.

Definition one_modifier (g : grammar) : Prop :=
  forall n r, lookup g n = Some r -> r_silent r = true -> r_kind r = KNormal \/ r_kind r = KAtomic.

Lemma one_modifier_silent_ok g : one_modifier g ->
  forall n r, lookup g n = Some r -> r_silent r = true -> silent_ok g r.
Proof.
  intros NS n r L S. destruct (NS n r L S) as [K|K].
  - right; left; exact K.
  - left; unfold hides; rewrite K; reflexivity.
Qed.

(* how a furthest-failure position moves when the input is the suffix at k: the sentinel -1
   stays -1, every real position is shifted by d *)
Definition pos_shifted (d : N) (p2 p : Z) : Prop :=
  (p2 = (-1)%Z /\ p = (-1)%Z) \/ ((0 <= p2)%Z /\ p = (p2 + Z.of_N d)%Z).

(* ------------------------------------------------------------------------------------ *)
(* facts about `parse` (those of props/C06.v, props/C13.v, props/C16.v) in the form used below *)

Lemma parse_wellformed : forall g input k f rule s' tree,
  k <= length input -> parse g f rule input k = Ok s' tree ->
  chain (PN g) (N.of_nat k) (s_pos s') tree /\ N.to_nat (s_pos s') <= length input.
Proof.
  intros g input k f rule s' tree Hk H.
  pose proof (parse_sound g input k f rule Hk) as S. rewrite H in S.
  destruct S as [[[_ [_ Hp]] _] [_ C]]. split; [exact C|exact Hp].
Qed.

Lemma parse_fail_position : forall g input k f rule t,
  k <= length input -> parse g f rule input k = Fail t ->
  t_pos t = (-1)%Z \/ (Z.of_nat k <= t_pos t <= Z.of_nat (length input))%Z.
Proof.
  intros g input k f rule t Hk H.
  pose proof (parse_sound g input k f rule Hk) as S. rewrite H in S. exact (proj1 S).
Qed.

Lemma parse_fail_names : forall g input k f rule t,
  k <= length input -> parse g f rule input k = Fail t ->
  Forall (fun n => exists r, lookup g n = Some r) (t_exp t) /\
  Forall (fun n => exists r, lookup g n = Some r) (t_unexp t).
Proof.
  intros g input k f rule t Hk H.
  pose proof (parse_sound g input k f rule Hk) as S. rewrite H in S. exact (proj2 S).
Qed.

(* the tracker of any result at start position 0 is the sentinel or non-negative *)
Definition res_trk_nonneg (r : res) : Prop :=
  match r with
  | Ok s _ => t_pos (s_trk s) = (-1)%Z \/ (0 <= t_pos (s_trk s))%Z
  | Fail t => t_pos t = (-1)%Z \/ (0 <= t_pos t)%Z
  | _ => True
  end.

Lemma parse0_trk : forall g input f rule, res_trk_nonneg (parse g f rule input 0).
Proof.
  intros g input f rule.
  pose proof (parse_sound g input 0 f rule (Nat.le_0_l _)) as S.
  destruct (parse g f rule input 0) as [s ps|t| |]; cbn; try exact I.
  - destruct S as [[_ [[A|A] _]] _]; [left; exact A|right; lia].
  - destruct S as [[A|A] _]; [left; exact A|right; lia].
Qed.

Lemma shift_trk_pos d t : t_pos t = (-1)%Z \/ (0 <= t_pos t)%Z ->
  pos_shifted d (t_pos t) (t_pos (shift_trk d t)).
Proof.
  intros [A|A]; unfold shift_trk, pos_shifted.
  - rewrite A. cbn. left. split; [reflexivity|exact A].
  - destruct (t_pos t <? 0)%Z eqn:E; [apply Z.ltb_lt in E; lia|]. cbn. right. split; [exact A|reflexivity].
Qed.

Lemma shift_trk_exp d t : t_exp (shift_trk d t) = t_exp t /\ t_unexp (shift_trk d t) = t_unexp t.
Proof. unfold shift_trk. destruct (t_pos t <? 0)%Z; split; reflexivity. Qed.

Lemma shift_res_fuel d r : shift_res d r = Fuel -> r = Fuel.
Proof. destruct r; cbn; intros H; try discriminate H. reflexivity. Qed.

Lemma parse_suffix_finishes : forall g f rule input k,
  all_grammar not_soi g = true -> k <= length input ->
  parse g f rule input k <> Fuel -> parse g f rule (skipn k input) 0 <> Fuel.
Proof.
  intros g f rule input k Hg Hk D E. apply D.
  rewrite (parse_shift g f rule input k Hg Hk), E. reflexivity.
Qed.

(* results of any two finishing runs, on the input from k and on the suffix from 0 *)
Lemma parse_shift_any : forall g f1 f2 rule input k r r2,
  all_grammar not_soi g = true -> k <= length input ->
  parse g f1 rule input k = r -> r <> Fuel ->
  parse g f2 rule (skipn k input) 0 = r2 -> r2 <> Fuel ->
  r = shift_res (N.of_nat k) r2 /\ res_trk_nonneg r2.
Proof.
  intros g f1 f2 rule input k r r2 Hg Hk H D H2 D2.
  assert (D1 : parse g f1 rule (skipn k input) 0 <> Fuel).
  { apply parse_suffix_finishes; [exact Hg|exact Hk|rewrite H; exact D]. }
  assert (E := parse_at g f1 rule (skipn k input) 0 _ eq_refl D1 f2 r2 H2 D2).
  split.
  - rewrite <- H, E. apply parse_shift; assumption.
  - rewrite <- H2. apply parse0_trk.
Qed.

(* ------------------------------------------------------------------------------------ *)
(* what a finished machine run says about `parse` *)

(* the interpreter: the reference result is determined completely *)
Definition ires_abs (r : ires) : res :=
  match r with
  | IOk true s ps => Ok (abs_st s) ps
  | IOk false s _ => Fail (i_trk s)
  | IUndef => Err
  | ICrash => Fuel
  | IFuel => Fuel
  end.

Lemma iparse_abs : forall g, one_modifier g -> forall f rule input k,
  iparse g f rule input k <> IFuel ->
  ires_abs (iparse g f rule input k) <> Fuel /\
  exists f', parse g f' rule input k = ires_abs (iparse g f rule input k).
Proof.
  intros g NS f rule input k D.
  assert (R := iparse_refines g (one_modifier_silent_ok g NS) f rule input k).
  destruct (iparse g f rule input k) as [[|] s ps| | |]; cbn [ires_abs].
  - split; [discriminate|exact (proj1 R)].
  - split; [discriminate|exact (proj1 R)].
  - contradiction.
  - split; [discriminate|exact R].
  - exfalso. apply D. reflexivity.
Qed.

(* the generated code with rules emitted in place: pairs, position, remaining text, user stack,
   tags and the furthest-failure POSITION are the reference's (the names in the tracker are not) *)
Definition grel (gr : gres) (r : res) : Prop :=
  match gr, r with
  | GOk true s ps, Ok s0 ps0 =>
      ps0 = ps /\ s_pos s0 = i_pos s /\ s_rest s0 = i_rest s /\ s_stk s0 = i_user s /\
      s_tags s0 = i_tags s /\ t_pos (s_trk s0) = t_pos (i_trk s)
  | GOk false s _, Fail t => t_pos t = t_pos (i_trk s)
  | GUndef, Err => True
  | _, _ => False
  end.

Lemma gparse_abs : forall g inl, one_modifier g -> inl_ok g inl ->
  forall f rule input k, inlined inl rule = false ->
  gparse g inl f rule input k <> GFuel ->
  exists f' r, parse g f' rule input k = r /\ r <> Fuel /\ grel (gparse g inl f rule input k) r.
Proof.
  intros g inl NS HI f rule input k NI D.
  assert (B := gparse_inl g inl HI f rule input k NI).
  assert (R := gparse_refines g (one_modifier_silent_ok g NS) f rule input k).
  destruct (gparse g inl f rule input k) as [m s ps| | |];
    destruct (gparse g [] f rule input k) as [m2 s2 p2| | |]; try contradiction.
  - destruct B as (B1&B2&B3&B4&B5&B6&B7&B8&B9&B10&B11&B12&B13). subst m2 p2.
    destruct m.
    + destruct R as [[f' R] _]. exists f', (Ok (abs_st s2) ps).
      split; [exact R|]. split; [discriminate|]. cbn. repeat split; symmetry; assumption.
    + destruct R as [[f' R] _]. exists f', (Fail (i_trk s2)).
      split; [exact R|]. split; [discriminate|]. cbn. symmetry. exact B11.
  - destruct R as [f' R]. exists f', Err. split; [exact R|]. split; [discriminate|exact I].
Qed.

(* with nothing emitted in place the tracker is the reference's, names included *)
Lemma gparse_nil_fail : forall g, one_modifier g -> forall f rule input k s ps,
  gparse g [] f rule input k = GOk false s ps -> exists f', parse g f' rule input k = Fail (i_trk s).
Proof.
  intros g NS f rule input k s ps H.
  assert (R := gparse_refines g (one_modifier_silent_ok g NS) f rule input k).
  rewrite H in R. exact (proj1 R).
Qed.

Lemma gparse_nil_ok : forall g, one_modifier g -> forall f rule input k s ps,
  gparse g [] f rule input k = GOk true s ps -> exists f', parse g f' rule input k = Ok (abs_st s) ps.
Proof.
  intros g NS f rule input k s ps H.
  assert (R := gparse_refines g (one_modifier_silent_ok g NS) f rule input k).
  rewrite H in R. exact (proj1 R).
Qed.

Lemma iparse_ok : forall g, one_modifier g -> forall f rule input k s ps,
  iparse g f rule input k = IOk true s ps -> exists f', parse g f' rule input k = Ok (abs_st s) ps.
Proof.
  intros g NS f rule input k s ps H.
  assert (R := iparse_refines g (one_modifier_silent_ok g NS) f rule input k).
  rewrite H in R. exact (proj1 R).
Qed.

Lemma iparse_fail : forall g, one_modifier g -> forall f rule input k s ps,
  iparse g f rule input k = IOk false s ps -> exists f', parse g f' rule input k = Fail (i_trk s).
Proof.
  intros g NS f rule input k s ps H.
  assert (R := iparse_refines g (one_modifier_silent_ok g NS) f rule input k).
  rewrite H in R. exact (proj1 R).
Qed.

Lemma gparse_ok : forall g inl, one_modifier g -> inl_ok g inl ->
  forall f rule input k s ps, inlined inl rule = false ->
  gparse g inl f rule input k = GOk true s ps ->
  exists f' s0, parse g f' rule input k = Ok s0 ps /\ s_pos s0 = i_pos s.
Proof.
  intros g inl NS HI f rule input k s ps NI H.
  destruct (gparse_abs g inl NS HI f rule input k NI) as [f' [r [P [_ G]]]]; [rewrite H; discriminate|].
  rewrite H in G. destruct r as [s0 ps0|t| |]; try contradiction.
  destruct G as (G1&G2&_). subst ps0. exists f', s0. split; assumption.
Qed.

Lemma gparse_fail : forall g inl, one_modifier g -> inl_ok g inl ->
  forall f rule input k s ps, inlined inl rule = false ->
  gparse g inl f rule input k = GOk false s ps ->
  exists f' t, parse g f' rule input k = Fail t /\ t_pos t = t_pos (i_trk s).
Proof.
  intros g inl NS HI f rule input k s ps NI H.
  destruct (gparse_abs g inl NS HI f rule input k NI) as [f' [r [P [_ G]]]]; [rewrite H; discriminate|].
  rewrite H in G. destruct r as [s0 ps0|t| |]; try contradiction.
  exists f', t. split; assumption.
Qed.

(* ==================================================================================== *)
(* (a) C06: tree well-formedness, single root, tags *)

Theorem machine_C06_wellformed_interp : forall g, one_modifier g ->
  forall f rule input k s ps, k <= length input ->
  iparse g f rule input k = IOk true s ps ->
  chain (PN g) (N.of_nat k) (i_pos s) ps /\ N.to_nat (i_pos s) <= length input.
Proof.
  intros g NS f rule input k s ps Hk H.
  destruct (iparse_ok g NS f rule input k s ps H) as [f' P].
  exact (parse_wellformed g input k f' rule _ _ Hk P).
Qed.

Theorem machine_C06_single_root_interp : forall g, one_modifier g ->
  forall f rule input k r s ps, lookup g rule = Some r -> r_silent r = false ->
  iparse g f rule input k = IOk true s ps ->
  exists kids tag, ps = [Pair rule (N.of_nat k) (i_pos s) kids tag].
Proof.
  intros g NS f rule input k r s ps L S H.
  destruct (iparse_ok g NS f rule input k s ps H) as [f' P].
  exact (parse_single_root g input k f' rule r _ _ L S P).
Qed.

Theorem machine_C06_tags_interp : forall g, one_modifier g ->
  forall f rule input k s ps, iparse g f rule input k = IOk true s ps ->
  forall t, In t (tree_tags ps) -> In t (grammar_tags g).
Proof.
  intros g NS f rule input k s ps H.
  destruct (iparse_ok g NS f rule input k s ps H) as [f' P].
  exact (parse_tags g f' rule input k _ _ P).
Qed.

Theorem machine_C06_wellformed_gen : forall g inl, one_modifier g -> inl_ok g inl ->
  forall f rule input k s ps, inlined inl rule = false -> k <= length input ->
  gparse g inl f rule input k = GOk true s ps ->
  chain (PN g) (N.of_nat k) (i_pos s) ps /\ N.to_nat (i_pos s) <= length input.
Proof.
  intros g inl NS HI f rule input k s ps NI Hk H.
  destruct (gparse_ok g inl NS HI f rule input k s ps NI H) as [f' [s0 [P E]]].
  rewrite <- E. exact (parse_wellformed g input k f' rule _ _ Hk P).
Qed.

Theorem machine_C06_single_root_gen : forall g inl, one_modifier g -> inl_ok g inl ->
  forall f rule input k r s ps, inlined inl rule = false ->
  lookup g rule = Some r -> r_silent r = false ->
  gparse g inl f rule input k = GOk true s ps ->
  exists kids tag, ps = [Pair rule (N.of_nat k) (i_pos s) kids tag].
Proof.
  intros g inl NS HI f rule input k r s ps NI L S H.
  destruct (gparse_ok g inl NS HI f rule input k s ps NI H) as [f' [s0 [P E]]].
  rewrite <- E. exact (parse_single_root g input k f' rule r _ _ L S P).
Qed.

Theorem machine_C06_tags_gen : forall g inl, one_modifier g -> inl_ok g inl ->
  forall f rule input k s ps, inlined inl rule = false ->
  gparse g inl f rule input k = GOk true s ps ->
  forall t, In t (tree_tags ps) -> In t (grammar_tags g).
Proof.
  intros g inl NS HI f rule input k s ps NI H.
  destruct (gparse_ok g inl NS HI f rule input k s ps NI H) as [f' [s0 [P E]]].
  exact (parse_tags g f' rule input k _ _ P).
Qed.

(* ==================================================================================== *)
(* (b) C13: the furthest-failure position (and names) of a failed run *)

Theorem machine_C13_position_interp : forall g, one_modifier g ->
  forall f rule input k s ps, k <= length input ->
  iparse g f rule input k = IOk false s ps ->
  t_pos (i_trk s) = (-1)%Z \/ (Z.of_nat k <= t_pos (i_trk s) <= Z.of_nat (length input))%Z.
Proof.
  intros g NS f rule input k s ps Hk H.
  destruct (iparse_fail g NS f rule input k s ps H) as [f' P].
  exact (parse_fail_position g input k f' rule _ Hk P).
Qed.

Theorem machine_C13_names_interp : forall g, one_modifier g ->
  forall f rule input k s ps, k <= length input ->
  iparse g f rule input k = IOk false s ps ->
  Forall (fun n => exists r, lookup g n = Some r) (t_exp (i_trk s)) /\
  Forall (fun n => exists r, lookup g n = Some r) (t_unexp (i_trk s)).
Proof.
  intros g NS f rule input k s ps Hk H.
  destruct (iparse_fail g NS f rule input k s ps H) as [f' P].
  exact (parse_fail_names g input k f' rule _ Hk P).
Qed.

Theorem machine_C13_position_gen : forall g inl, one_modifier g -> inl_ok g inl ->
  forall f rule input k s ps, inlined inl rule = false -> k <= length input ->
  gparse g inl f rule input k = GOk false s ps ->
  t_pos (i_trk s) = (-1)%Z \/ (Z.of_nat k <= t_pos (i_trk s) <= Z.of_nat (length input))%Z.
Proof.
  intros g inl NS HI f rule input k s ps NI Hk H.
  destruct (gparse_fail g inl NS HI f rule input k s ps NI H) as [f' [t [P E]]].
  rewrite <- E. exact (parse_fail_position g input k f' rule _ Hk P).
Qed.

(* names: with nothing emitted in place (the tracker is then the reference's) *)
Theorem machine_C13_names_gen : forall g, one_modifier g ->
  forall f rule input k s ps, k <= length input ->
  gparse g [] f rule input k = GOk false s ps ->
  Forall (fun n => exists r, lookup g n = Some r) (t_exp (i_trk s)) /\
  Forall (fun n => exists r, lookup g n = Some r) (t_unexp (i_trk s)).
Proof.
  intros g NS f rule input k s ps Hk H.
  destruct (gparse_nil_fail g NS f rule input k s ps H) as [f' P].
  exact (parse_fail_names g input k f' rule _ Hk P).
Qed.

(* ==================================================================================== *)
(* (c) C16: parsing from start position k is parsing the suffix from 0, shifted by k *)

(* any two finishing runs of the interpreter *)
Theorem machine_C16_shift_any_interp : forall g, one_modifier g -> all_grammar not_soi g = true ->
  forall f1 f2 rule input k, k <= length input ->
  match iparse g f1 rule input k, iparse g f2 rule (skipn k input) 0 with
  | IOk true s ps, IOk true s2 ps2 =>
      ps = shift_pairs (N.of_nat k) ps2 /\
      i_pos s = (i_pos s2 + N.of_nat k)%N /\ i_rest s = i_rest s2 /\
      i_user s = i_user s2 /\ i_tags s = i_tags s2 /\
      pos_shifted (N.of_nat k) (t_pos (i_trk s2)) (t_pos (i_trk s)) /\
      t_exp (i_trk s) = t_exp (i_trk s2) /\ t_unexp (i_trk s) = t_unexp (i_trk s2)
  | IOk false s _, IOk false s2 _ =>
      pos_shifted (N.of_nat k) (t_pos (i_trk s2)) (t_pos (i_trk s)) /\
      t_exp (i_trk s) = t_exp (i_trk s2) /\ t_unexp (i_trk s) = t_unexp (i_trk s2)
  | IUndef, IUndef => True
  | IFuel, _ | _, IFuel => True
  | _, _ => False
  end.
Proof.
  intros g NS Hg f1 f2 rule input k Hk.
  assert (A1 := iparse_abs g NS f1 rule input k).
  assert (A2 := iparse_abs g NS f2 rule (skipn k input) 0).
  destruct (iparse g f1 rule input k) as [m s ps| | |] eqn:E1;
    [| | |destruct (iparse g f2 rule (skipn k input) 0) as [[|] ? ?| | |]; exact I].
  - (* IOk *)
    destruct (iparse g f2 rule (skipn k input) 0) as [m2 s2 ps2| | |] eqn:E2;
      [| | |destruct m; exact I].
    + destruct (A1 ltac:(discriminate)) as [D1 [f1' P1]].
      destruct (A2 ltac:(discriminate)) as [D2 [f2' P2]].
      destruct (parse_shift_any g f1' f2' rule input k _ _ Hg Hk P1 D1 P2 D2) as [X T].
      destruct m, m2; cbn [ires_abs shift_res res_trk_nonneg] in X, T; try discriminate X.
      * inversion X as [[X1 X2 X3 X4 X5 X6]].
        destruct (shift_trk_exp (N.of_nat k) (i_trk s2)) as [Y1 Y2]. rewrite X5.
        split; [reflexivity|]. split; [reflexivity|]. split; [reflexivity|].
        split; [reflexivity|]. split; [reflexivity|].
        split; [apply shift_trk_pos; exact T|]. split; assumption.
      * inversion X as [X1].
        destruct (shift_trk_exp (N.of_nat k) (i_trk s2)) as [Y1 Y2]. rewrite X1.
        split; [apply shift_trk_pos; exact T|]. split; assumption.
    + destruct (A2 ltac:(discriminate)) as [D2 _]. exfalso. apply D2. reflexivity.
    + destruct (A1 ltac:(discriminate)) as [D1 [f1' P1]].
      destruct (A2 ltac:(discriminate)) as [D2 [f2' P2]].
      destruct (parse_shift_any g f1' f2' rule input k _ _ Hg Hk P1 D1 P2 D2) as [X T].
      destruct m; cbn [ires_abs shift_res] in X; discriminate X.
  - destruct (A1 ltac:(discriminate)) as [D1 _]. exfalso. apply D1. reflexivity.
  - (* IUndef *)
    destruct (iparse g f2 rule (skipn k input) 0) as [m2 s2 ps2| | |] eqn:E2; try exact I.
    + destruct (A1 ltac:(discriminate)) as [D1 [f1' P1]].
      destruct (A2 ltac:(discriminate)) as [D2 [f2' P2]].
      destruct (parse_shift_any g f1' f2' rule input k _ _ Hg Hk P1 D1 P2 D2) as [X T].
      destruct m2; cbn [ires_abs shift_res] in X; discriminate X.
    + destruct (A2 ltac:(discriminate)) as [D2 _]. exfalso. apply D2. reflexivity.
Qed.

(* a finished run from k has a finished counterpart on the suffix *)
Theorem machine_C16_shift_interp : forall g, one_modifier g -> all_grammar not_soi g = true ->
  forall f rule input k m s ps, k <= length input ->
  iparse g f rule input k = IOk m s ps ->
  exists f',
    match iparse g f' rule (skipn k input) 0 with
    | IOk m2 s2 ps2 =>
        m2 = m /\
        (if m then
           ps = shift_pairs (N.of_nat k) ps2 /\
           i_pos s = (i_pos s2 + N.of_nat k)%N /\ i_rest s = i_rest s2 /\
           i_user s = i_user s2 /\ i_tags s = i_tags s2
         else True) /\
        pos_shifted (N.of_nat k) (t_pos (i_trk s2)) (t_pos (i_trk s)) /\
        t_exp (i_trk s) = t_exp (i_trk s2) /\ t_unexp (i_trk s) = t_unexp (i_trk s2)
    | _ => False
    end.
Proof.
  intros g NS Hg f rule input k m s ps Hk H.
  destruct (iparse_abs g NS f rule input k) as [D [f1 P]]; [rewrite H; discriminate|].
  assert (D' : parse g f1 rule (skipn k input) 0 <> Fuel).
  { apply parse_suffix_finishes; [exact Hg|exact Hk|rewrite P; exact D]. }
  destruct (iparse_terminates g (one_modifier_silent_ok g NS) f1 rule (skipn k input) 0 _ eq_refl D')
    as [f' T].
  exists f'.
  assert (A := machine_C16_shift_any_interp g NS Hg f f' rule input k Hk).
  rewrite H in A.
  destruct (iparse g f' rule (skipn k input) 0) as [m2 s2 ps2| | |].
  - destruct m, m2; try contradiction.
    + destruct A as (A1&A2&A3&A4&A5&A6&A7&A8). repeat split; assumption.
    + destruct A as (A6&A7&A8). repeat split; assumption.
  - destruct m; contradiction.
  - destruct m; contradiction.
  - exfalso. apply T. reflexivity.
Qed.

(* the generated code, with or without rules emitted in place *)
Theorem machine_C16_shift_any_gen : forall g inl, one_modifier g -> inl_ok g inl ->
  all_grammar not_soi g = true ->
  forall f1 f2 rule input k, inlined inl rule = false -> k <= length input ->
  match gparse g inl f1 rule input k, gparse g inl f2 rule (skipn k input) 0 with
  | GOk true s ps, GOk true s2 ps2 =>
      ps = shift_pairs (N.of_nat k) ps2 /\
      i_pos s = (i_pos s2 + N.of_nat k)%N /\ i_rest s = i_rest s2 /\
      i_user s = i_user s2 /\ i_tags s = i_tags s2 /\
      pos_shifted (N.of_nat k) (t_pos (i_trk s2)) (t_pos (i_trk s))
  | GOk false s _, GOk false s2 _ =>
      pos_shifted (N.of_nat k) (t_pos (i_trk s2)) (t_pos (i_trk s))
  | GUndef, GUndef => True
  | GFuel, _ | _, GFuel => True
  | _, _ => False
  end.
Proof.
  intros g inl NS HI Hg f1 f2 rule input k NI Hk.
  assert (A1 := gparse_abs g inl NS HI f1 rule input k NI).
  assert (A2 := gparse_abs g inl NS HI f2 rule (skipn k input) 0 NI).
  destruct (gparse g inl f1 rule input k) as [m s ps| | |] eqn:E1;
    [| |
     |destruct (gparse g inl f2 rule (skipn k input) 0) as [[|] ? ?| | |]; exact I].
  - destruct (gparse g inl f2 rule (skipn k input) 0) as [m2 s2 ps2| | |] eqn:E2;
      [| | |destruct m; exact I].
    + destruct (A1 ltac:(discriminate)) as [f1' [r1 [P1 [D1 G1]]]].
      destruct (A2 ltac:(discriminate)) as [f2' [r2 [P2 [D2 G2]]]].
      destruct (parse_shift_any g f1' f2' rule input k _ _ Hg Hk P1 D1 P2 D2) as [X T].
      destruct m, m2; cbn [grel] in G1, G2;
        destruct r1 as [a1 q1|t1| |]; try contradiction;
        destruct r2 as [a2 q2|t2| |]; try contradiction;
        cbn [shift_res res_trk_nonneg] in X, T; try discriminate X.
      * inversion X as [[X1 X2]]. clear X.
        destruct G1 as (G11&G12&G13&G14&G15&G16). destruct G2 as (G21&G22&G23&G24&G25&G26).
        subst a1 q1. cbn [shift_st s_pos s_rest s_stk s_tags s_trk] in *.
        subst q2 ps.
        split; [reflexivity|]. split; [congruence|]. split; [congruence|].
        split; [congruence|]. split; [congruence|].
        rewrite <- G16, <- G26. apply shift_trk_pos. exact T.
      * inversion X as [X1]. subst t1.
        rewrite <- G1, <- G2. apply shift_trk_pos. exact T.
    + destruct (A2 ltac:(discriminate)) as [f2' [r2 [_ [_ G2]]]]. exfalso. destruct r2; exact G2.
    + destruct (A1 ltac:(discriminate)) as [f1' [r1 [P1 [D1 G1]]]].
      destruct (A2 ltac:(discriminate)) as [f2' [r2 [P2 [D2 G2]]]].
      destruct (parse_shift_any g f1' f2' rule input k _ _ Hg Hk P1 D1 P2 D2) as [X T].
      cbn [grel] in G2. destruct r2; try contradiction.
      destruct m; cbn [grel] in G1; destruct r1; try contradiction; discriminate X.
  - destruct (A1 ltac:(discriminate)) as [f1' [r1 [_ [_ G1]]]]. exfalso. destruct r1; exact G1.
  - destruct (gparse g inl f2 rule (skipn k input) 0) as [m2 s2 ps2| | |] eqn:E2; try exact I.
    + destruct (A1 ltac:(discriminate)) as [f1' [r1 [P1 [D1 G1]]]].
      destruct (A2 ltac:(discriminate)) as [f2' [r2 [P2 [D2 G2]]]].
      destruct (parse_shift_any g f1' f2' rule input k _ _ Hg Hk P1 D1 P2 D2) as [X T].
      cbn [grel] in G1. destruct r1; try contradiction.
      destruct m2; cbn [grel] in G2; destruct r2; try contradiction; discriminate X.
    + destruct (A2 ltac:(discriminate)) as [f2' [r2 [_ [_ G2]]]]. exfalso. destruct r2; exact G2.
Qed.

Theorem machine_C16_shift_gen : forall g inl, one_modifier g -> inl_ok g inl ->
  all_grammar not_soi g = true ->
  forall f rule input k m s ps, inlined inl rule = false -> k <= length input ->
  gparse g inl f rule input k = GOk m s ps ->
  exists f',
    match gparse g inl f' rule (skipn k input) 0 with
    | GOk m2 s2 ps2 =>
        m2 = m /\
        (if m then
           ps = shift_pairs (N.of_nat k) ps2 /\
           i_pos s = (i_pos s2 + N.of_nat k)%N /\ i_rest s = i_rest s2 /\
           i_user s = i_user s2 /\ i_tags s = i_tags s2
         else True) /\
        pos_shifted (N.of_nat k) (t_pos (i_trk s2)) (t_pos (i_trk s))
    | _ => False
    end.
Proof.
  intros g inl NS HI Hg f rule input k m s ps NI Hk H.
  destruct (gparse_abs g inl NS HI f rule input k NI) as [f1 [r [P [D _]]]]; [rewrite H; discriminate|].
  assert (D' : parse g f1 rule (skipn k input) 0 <> Fuel).
  { apply parse_suffix_finishes; [exact Hg|exact Hk|rewrite P; exact D]. }
  destruct (gparse_terminates g inl (one_modifier_silent_ok g NS) HI f1 rule (skipn k input) 0 _ NI
              eq_refl D') as [f' T].
  exists f'.
  assert (A := machine_C16_shift_any_gen g inl NS HI Hg f f' rule input k NI Hk).
  rewrite H in A.
  destruct (gparse g inl f' rule (skipn k input) 0) as [m2 s2 ps2| | |].
  - destruct m, m2; try contradiction.
    + destruct A as (A1&A2&A3&A4&A5&A6). repeat split; assumption.
    + repeat split; assumption.
  - destruct m; contradiction.
  - destruct m; contradiction.
  - exfalso. apply T. reflexivity.
Qed.

(* with nothing emitted in place the names in the tracker are related too *)
Theorem machine_C16_shift_names_gen : forall g, one_modifier g -> all_grammar not_soi g = true ->
  forall f1 f2 rule input k s ps s2 ps2 m, k <= length input ->
  gparse g [] f1 rule input k = GOk m s ps ->
  gparse g [] f2 rule (skipn k input) 0 = GOk m s2 ps2 ->
  t_exp (i_trk s) = t_exp (i_trk s2) /\ t_unexp (i_trk s) = t_unexp (i_trk s2).
Proof.
  intros g NS Hg f1 f2 rule input k s ps s2 ps2 m Hk H1 H2.
  destruct m.
  - destruct (gparse_nil_ok g NS _ _ _ _ _ _ H1) as [f1' P1].
    destruct (gparse_nil_ok g NS _ _ _ _ _ _ H2) as [f2' P2].
    destruct (parse_shift_any g f1' f2' rule input k _ _ Hg Hk P1 ltac:(discriminate) P2 ltac:(discriminate))
      as [X _].
    cbn [shift_res] in X. inversion X as [[X1 X2 X3 X4 X5 X6]].
    rewrite X5. apply shift_trk_exp.
  - destruct (gparse_nil_fail g NS _ _ _ _ _ _ H1) as [f1' P1].
    destruct (gparse_nil_fail g NS _ _ _ _ _ _ H2) as [f2' P2].
    destruct (parse_shift_any g f1' f2' rule input k _ _ Hg Hk P1 ltac:(discriminate) P2 ltac:(discriminate))
      as [X _].
    cbn [shift_res] in X. inversion X as [X1].
    rewrite X1. apply shift_trk_exp.
Qed.

Print Assumptions machine_C06_wellformed_interp.
Print Assumptions machine_C06_single_root_interp.
Print Assumptions machine_C06_tags_interp.
Print Assumptions machine_C06_wellformed_gen.
Print Assumptions machine_C06_single_root_gen.
Print Assumptions machine_C06_tags_gen.
Print Assumptions machine_C13_position_interp.
Print Assumptions machine_C13_names_interp.
Print Assumptions machine_C13_position_gen.
Print Assumptions machine_C13_names_gen.
Print Assumptions machine_C16_shift_any_interp.
Print Assumptions machine_C16_shift_interp.
Print Assumptions machine_C16_shift_any_gen.
Print Assumptions machine_C16_shift_gen.
Print Assumptions machine_C16_shift_names_gen.
