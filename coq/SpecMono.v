(* SpecMono.v — fuel monotonicity of the reference semantics: a result other than Fuel is
   stable under adding fuel. *)
From Coq Require Import List NArith ZArith Bool Arith Lia.
Import ListNotations.
From PP Require Import Base Syntax Spec.

Section Mono.
Variable g : grammar.

Definition mono_at (f : nat) : Prop :=
  forall c t s r, run g f c t s = r -> r <> Fuel -> forall f', f <= f' -> run g f' c t s = r.

Lemma skip_mono f : mono_at f -> forall c s r,
  skip_with g (fun c' e' => run g f c' (TEval e')) c s = r -> r <> Fuel ->
  forall f', f <= f' -> skip_with g (fun c' e' => run g f' c' (TEval e')) c s = r.
Proof.
  intros IH c s r H D f' L. unfold skip_with in *.
  destruct (c_atom c); try exact H.
  destruct (skip_expr g); try exact H.
  eapply IH; eauto.
Qed.

(* scrutinise the next recursive call in the hypothesis and transport it to the larger fuel *)
Ltac step IH IHk L' H D :=
  match type of H with
  | context [match run g ?f ?c ?t ?s with _ => _ end] =>
      let E := fresh "E" in
      destruct (run g f c t s) eqn:E;
      [ rewrite (IH _ _ _ _ E) by first [discriminate | exact L']
      | rewrite (IH _ _ _ _ E) by first [discriminate | exact L']
      | rewrite (IH _ _ _ _ E) by first [discriminate | exact L']
      | exfalso; apply D; symmetry; exact H ]
  | context [match skip_with g ?ev ?c ?s with _ => _ end] =>
      let E := fresh "E" in
      destruct (skip_with g ev c s) eqn:E;
      [ rewrite (IHk _ _ _ E) by first [discriminate | exact L']
      | rewrite (IHk _ _ _ E) by first [discriminate | exact L']
      | rewrite (IHk _ _ _ E) by first [discriminate | exact L']
      | exfalso; apply D; symmetry; exact H ]
  end.

Lemma mono_all : forall f, mono_at f.
Proof.
  induction f as [|f IH]; intros c t s r H D f' L.
  - cbn in H. exfalso. apply D. symmetry. exact H.
  - assert (IHk := skip_mono f IH).
    destruct f' as [|f']; [lia|]. assert (L' : f <= f') by lia.
    destruct t as [e|es|es|e].
    + destruct e; cbn [run] in *; try exact H;
        try (eapply IH; eassumption).
      * (* ERef *) destruct (lookup g n); [|exact H]. step IH IHk L' H D; exact H.
      * (* EOpt *) step IH IHk L' H D; exact H.
      * (* EStar *) step IH IHk L' H D; try exact H. step IH IHk L' H D; exact H.
      * (* EAnd *) step IH IHk L' H D; exact H.
      * (* ENot *) step IH IHk L' H D; exact H.
      * (* EGrp *) step IH IHk L' H D; exact H.
      * (* EPush *) step IH IHk L' H D; exact H.
    + cbn [run] in *. destruct es as [|e1 es']; [exact H|].
      step IH IHk L' H D; try exact H.
      destruct es' as [|e2 es'']; [exact H|].
      step IH IHk L' H D; try exact H.
      step IH IHk L' H D; exact H.
    + cbn [run] in *. destruct es as [|e1 es']; [exact H|].
      step IH IHk L' H D; try exact H.
      eapply IH; eassumption.
    + cbn [run] in *.
      step IH IHk L' H D; try exact H.
      step IH IHk L' H D; try exact H.
      step IH IHk L' H D; exact H.
Qed.

Theorem run_mono : forall f f' c t s r,
  run g f c t s = r -> r <> Fuel -> f <= f' -> run g f' c t s = r.
Proof. intros. eapply mono_all; eauto. Qed.

Theorem eval_mono : forall f f' c e s r,
  eval g f c e s = r -> r <> Fuel -> f <= f' -> eval g f' c e s = r.
Proof. unfold eval. intros. eapply run_mono; eauto. Qed.

Theorem parse_mono : forall f f' rule input k r,
  parse g f rule input k = r -> r <> Fuel -> f <= f' -> parse g f' rule input k = r.
Proof. intros. unfold parse in *. eapply eval_mono; eauto. Qed.

End Mono.
