(* CharClassProof.v — the merged character class accepts exactly the union of its parts. *)
From Coq Require Import List NArith Bool Lia.
Import ListNotations.
From PP Require Import Base CharClass.
Open Scope N_scope.

Lemma in_ranges_app c a b : in_ranges c (a ++ b) = in_ranges c a || in_ranges c b.
Proof.
  induction a as [|[lo hi] a IH]; cbn; [reflexivity|]. rewrite IH. apply orb_assoc.
Qed.

Lemma in_ranges_rev c a : in_ranges c (rev a) = in_ranges c a.
Proof.
  induction a as [|[lo hi] a IH]; [reflexivity|]. cbn [rev]. rewrite in_ranges_app, IH. cbn.
  rewrite orb_false_r. apply orb_comm.
Qed.

Lemma in_ranges_insert c r l : in_ranges c (insert_range r l) = in_ranges c (r :: l).
Proof.
  induction l as [|x l IH]; [reflexivity|]. cbn [insert_range].
  destruct (_ || _); [reflexivity|]. destruct r as [a b], x as [lo hi]. cbn in *.
  rewrite IH. cbn. rewrite !orb_assoc. f_equal. apply orb_comm.
Qed.

Lemma in_ranges_sort c l : in_ranges c (sort_ranges l) = in_ranges c l.
Proof.
  induction l as [|[a b] l IH]; [reflexivity|]. cbn [sort_ranges fold_right].
  rewrite in_ranges_insert. cbn. f_equal. exact IH.
Qed.

(* sorted by start *)
Fixpoint sorted_from (lo : N) (l : list (N * N)) : Prop :=
  match l with [] => True | (s, e) :: l' => lo <= s /\ sorted_from s l' end.

Lemma sorted_weaken lo lo' l : lo' <= lo -> sorted_from lo l -> sorted_from lo' l.
Proof. destruct l as [|[s e] l]; [trivial|]. cbn. intros H [A B]. split; [lia|exact B]. Qed.

Lemma insert_sorted : forall l r lo, sorted_from lo l -> lo <= fst r -> sorted_from lo (insert_range r l).
Proof.
  induction l as [|[s e] l IH]; intros [a b] lo H L; cbn [insert_range fst snd].
  - cbn. split; [exact L|exact I].
  - cbn in H. destruct H as [H1 H2]. cbn [fst snd].
    destruct ((a <? s) || ((a =? s) && (b <=? e))) eqn:E.
    + cbn. split; [exact L|]. split; [|exact H2].
      apply orb_prop in E. destruct E as [E|E]; [apply N.ltb_lt in E; lia|].
      apply andb_prop in E. destruct E as [E _]. apply N.eqb_eq in E. lia.
    + cbn. split; [exact H1|]. apply IH; [exact H2|]. cbn.
      apply orb_false_elim in E. destruct E as [E1 E2]. apply N.ltb_ge in E1. exact E1.
Qed.

Lemma sort_sorted l : sorted_from 0 (sort_ranges l).
Proof.
  induction l as [|r l IH]; [exact I|]. cbn [sort_ranges fold_right]. apply insert_sorted; [exact IH|lia].
Qed.

(* merging a list sorted by start keeps the union; acc's head starts no later than what follows *)
Lemma merge_acc_mem : forall l acc c,
  (match acc with (ls, _) :: _ => sorted_from ls l | [] => sorted_from 0 l end) ->
  (forall s e, In (s, e) l -> s <= e) ->
  in_ranges c (merge_acc acc l) = in_ranges c acc || in_ranges c l.
Proof.
  induction l as [|[s e] l IH]; intros acc c Hs Hn.
  - cbn. rewrite in_ranges_rev, orb_false_r. reflexivity.
  - cbn [merge_acc]. assert (Hse : s <= e) by (apply Hn; left; reflexivity).
    assert (Hn' : forall s0 e0, In (s0, e0) l -> s0 <= e0) by (intros; apply Hn; right; assumption).
    destruct acc as [|[ls le] acc'].
    + rewrite IH; [cbn; rewrite orb_false_r; reflexivity| |exact Hn'].
      cbn in Hs. exact (proj2 Hs).
    + cbn in Hs. destruct Hs as [H1 H2].
      destruct (le + 1 <? s) eqn:E.
      * rewrite IH; [|exact H2|exact Hn']. cbn [in_ranges].
        destruct (in_ranges c acc'), (in_ranges c l), ((ls <=? c) && (c <=? le)), ((s <=? c) && (c <=? e)); reflexivity.
      * apply N.ltb_ge in E. rewrite IH; [| |exact Hn'].
        -- cbn [in_ranges].
           destruct (in_ranges c acc'), (in_ranges c l);
           destruct (N.leb_spec ls c), (N.leb_spec c (N.max le e)), (N.leb_spec c le),
             (N.leb_spec s c), (N.leb_spec c e); cbn; try reflexivity; lia.
        -- eapply sorted_weaken; [|exact H2]. exact H1.
Qed.

Lemma in_insert_range x r l : In x (insert_range r l) -> x = r \/ In x l.
Proof.
  induction l as [|y l IH]; cbn [insert_range]; intros H.
  - destruct H as [<-|[]]. left. reflexivity.
  - destruct (_ || _).
    + destruct H as [<-|H]; [left; reflexivity|right; exact H].
    + destruct H as [<-|H]; [right; left; reflexivity|].
      destruct (IH H) as [->|H']; [left; reflexivity|right; right; exact H'].
Qed.

Lemma in_sort_ranges x l : In x (sort_ranges l) -> In x l.
Proof.
  induction l as [|r l IH]; cbn [sort_ranges fold_right]; intros H; [exact H|].
  apply in_insert_range in H. destruct H as [->|H]; [left; reflexivity|right; apply IH; exact H].
Qed.

Lemma in_ranges_filter_nonempty c l : in_ranges c (filter nonempty_range l) = in_ranges c l.
Proof.
  induction l as [|[s e] l IH]; [reflexivity|]. cbn [filter]. unfold nonempty_range at 1. cbn [fst snd].
  destruct (N.leb_spec s e); cbn [in_ranges]; rewrite IH; [reflexivity|].
  destruct (N.leb_spec s c), (N.leb_spec c e); cbn; try reflexivity; lia.
Qed.

Theorem merge_ranges_mem c l : in_ranges c (merge_ranges l) = in_ranges c l.
Proof.
  unfold merge_ranges. rewrite merge_acc_mem.
  - cbn. rewrite in_ranges_sort. apply in_ranges_filter_nonempty.
  - apply sort_sorted.
  - intros s e H. apply in_sort_ranges in H. apply filter_In in H. destruct H as [_ H].
    unfold nonempty_range in H. cbn in H. apply N.leb_le. exact H.
Qed.

Lemma memN_filter c p l : memN c (filter p l) = memN c l && p c.
Proof.
  induction l as [|x l IH]; [reflexivity|]. cbn [filter].
  destruct (p x) eqn:E; cbn [memN]; rewrite IH.
  - destruct (N.eqb_spec c x) as [->|]; cbn; [rewrite E; reflexivity|reflexivity].
  - destruct (N.eqb_spec c x) as [->|]; cbn; [rewrite E; rewrite andb_false_r; reflexivity|reflexivity].
Qed.

(* C12: the merged class accepts exactly the singles and the (either-way-round) ranges *)
Theorem class_merge_spec singles ranges c :
  class_mem (optimize_char_class singles ranges) c =
  memN c singles || existsb (in_range_sym c) ranges.
Proof.
  unfold class_mem, optimize_char_class. cbn [fst snd].
  rewrite memN_filter, merge_ranges_mem.
  assert (E : in_ranges c ranges = existsb (in_range_sym c) ranges).
  { induction ranges as [|[lo hi] rs IH]; [reflexivity|]. cbn [existsb]. unfold in_range_sym at 1.
    cbn [in_ranges]. rewrite orb_false_r. f_equal. exact IH. }
  rewrite E. destruct (memN c singles), (existsb _ _); reflexivity.
Qed.

(* ranges are case sensitive and exact *)
Theorem range_mem lo hi c : in_ranges c [(lo, hi)] = (lo <=? c) && (c <=? hi).
Proof. cbn. apply orb_false_r. Qed.

(* ASCII case variants: a letter and its other case, nothing else *)
Theorem ascii_variants_spec c d :
  memN d (ascii_variants c) = N.eqb (ascii_lower d) (ascii_lower c) && (N.eqb d c || (d <? 128) && (c <? 128)).
Proof.
  unfold ascii_variants, ascii_lower.
  destruct (N.leb_spec 65 c), (N.leb_spec c 90), (N.leb_spec 97 c), (N.leb_spec c 122),
    (N.leb_spec 65 d), (N.leb_spec d 90); cbn [andb memN];
    repeat match goal with |- context [N.eqb ?a ?b] => destruct (N.eqb_spec a b) end;
    repeat match goal with |- context [N.ltb ?a ?b] => destruct (N.ltb_spec a b) end;
    cbn; try reflexivity; lia.
Qed.
