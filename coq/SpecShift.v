(* SpecShift.v — for SOI-free grammars the reference semantics commutes with shifting all
   positions: the evaluator consults the input only through the remaining text. *)
From Coq Require Import List NArith ZArith Bool Arith Lia ZifyBool.
Import ListNotations.
From PP Require Import Base Syntax Spec SpecSyn.

Section Shift.
Variable g : grammar.
Variable d : N.

Definition shift_trk (t : trk) : trk :=
  if (t_pos t <? 0)%Z then t
  else {| t_pos := t_pos t + Z.of_N d; t_exp := t_exp t; t_unexp := t_unexp t |}.

Definition shift_st (s : st) : st :=
  {| s_pos := s_pos s + d; s_rest := s_rest s; s_stk := s_stk s; s_tags := s_tags s;
     s_trk := shift_trk (s_trk s) |}.

Fixpoint shift_pair (p : pair) : pair :=
  match p with
  | Pair n s e kids tag =>
      Pair n (s + d) (e + d)
        ((fix go (ks : list pair) : list pair :=
            match ks with [] => [] | k :: ks' => shift_pair k :: go ks' end) kids) tag
  end.
Definition shift_pairs (ps : list pair) : list pair := map shift_pair ps.

Lemma shift_pair_eq n s e kids tag :
  shift_pair (Pair n s e kids tag) = Pair n (s + d) (e + d) (shift_pairs kids) tag.
Proof. reflexivity. Qed.

Definition shift_res (r : res) : res :=
  match r with
  | Ok s ps => Ok (shift_st s) (shift_pairs ps)
  | Fail t => Fail (shift_trk t)
  | x => x
  end.

Lemma shift_pairs_app a b : shift_pairs (a ++ b) = shift_pairs a ++ shift_pairs b.
Proof. apply map_app. Qed.

Lemma record_shift c b n s : record c b n (shift_st s) = shift_trk (record c b n s).
Proof.
  unfold record. cbn [s_trk s_pos shift_st].
  destruct (_ || _); [reflexivity|].
  unfold shift_trk at 1 2 3 4.
  destruct (t_pos (s_trk s) <? 0)%Z eqn:E0.
  - (* sentinel *)
    assert (E1 : (t_pos (s_trk s) <? Z.of_N (s_pos s + d))%Z = true) by lia.
    assert (E2 : (t_pos (s_trk s) <? Z.of_N (s_pos s))%Z = true) by lia.
    rewrite E1, E2. unfold shift_trk.
    destruct (Nat.odd _); cbn [t_pos];
      (replace (Z.of_N (s_pos s) <? 0)%Z with false by lia); f_equal; lia.
  - cbn [t_pos t_exp t_unexp].
    replace (t_pos (s_trk s) + Z.of_N d <? Z.of_N (s_pos s + d))%Z
      with (t_pos (s_trk s) <? Z.of_N (s_pos s))%Z by lia.
    destruct (t_pos (s_trk s) <? Z.of_N (s_pos s))%Z eqn:E1.
    + unfold shift_trk. destruct (Nat.odd _); cbn [t_pos];
        (replace (Z.of_N (s_pos s) <? 0)%Z with false by lia); f_equal; lia.
    + replace (Z.of_N (s_pos s + d) =? t_pos (s_trk s) + Z.of_N d)%Z
        with (Z.of_N (s_pos s) =? t_pos (s_trk s))%Z by lia.
      destruct (Z.of_N (s_pos s) =? t_pos (s_trk s))%Z.
      * unfold shift_trk. destruct (Nat.odd _); cbn [t_pos t_exp t_unexp]; rewrite E0; reflexivity.
      * unfold shift_trk. rewrite E0. reflexivity.
Qed.

Lemma adv_shift s n r : adv (shift_st s) n r = shift_st (adv s n r).
Proof. unfold adv, shift_st. cbn. f_equal. lia. Qed.

Lemma shift_same_pos s : shift_res (Ok s []) = Ok (shift_st s) [].
Proof. reflexivity. Qed.

Definition shift_at (f : nat) : Prop :=
  forall c t s, all_task not_soi t = true -> all_grammar not_soi g = true ->
    run g f c t (shift_st s) = shift_res (run g f c t s).

Lemma skip_nosoi e : skip_expr g = Some e -> all_sub not_soi e = true.
Proof.
  apply skip_expr_all. intros x. destruct x; try exact I; try reflexivity.
  destruct tag; [exact I|reflexivity].
Qed.

Lemma skip_shift f : shift_at f -> all_grammar not_soi g = true -> forall c s,
  skip_with g (fun c' e' => run g f c' (TEval e')) c (shift_st s)
  = shift_res (skip_with g (fun c' e' => run g f c' (TEval e')) c s).
Proof.
  intros IH Hg c s. unfold skip_with.
  destruct (c_atom c); try reflexivity.
  destruct (skip_expr g) eqn:E; [|reflexivity].
  apply IH; [cbn; apply skip_nosoi; exact E|exact Hg].
Qed.

Lemma push_tag_shift tag s : push_tag tag (shift_st s) = shift_st (push_tag tag s).
Proof. destruct tag; reflexivity. Qed.
Lemma pop_tag_shift tag s : pop_tag tag (shift_st s) = shift_st (pop_tag tag s).
Proof. destruct tag; reflexivity. Qed.

Lemma shift_all : forall f, shift_at f.
Proof.
  induction f as [|f IH]; intros c t s Ht Hg; [reflexivity|].
  assert (IHk := skip_shift f IH Hg).
  destruct t as [e|es|es|e]; cbn [all_task] in Ht.
  - destruct e; cbn [all_sub not_soi] in Ht; try discriminate;
      try (apply andb_prop in Ht; destruct Ht as [_ Ht]);
      cbn [run shift_st s_rest s_pos s_stk s_trk s_tags].
    + (* EStr *) destruct (strip_prefix _ _); cbn [shift_res].
      * rewrite <- adv_shift. reflexivity.
      * rewrite <- record_shift. reflexivity.
    + destruct (strip_prefix_ci _ _); cbn [shift_res].
      * rewrite <- adv_shift. reflexivity.
      * rewrite <- record_shift. reflexivity.
    + destruct (s_rest s); cbn [shift_res]; [rewrite <- record_shift; reflexivity|].
      destruct (_ && _); cbn [shift_res]; [rewrite <- adv_shift|rewrite <- record_shift]; reflexivity.
    + destruct (s_rest s); cbn [shift_res]; [reflexivity|rewrite <- adv_shift; reflexivity].
    + destruct (s_rest s); reflexivity.
    + destruct (s_rest s); cbn [shift_res]; [reflexivity|].
      destruct (in_ranges _ _); cbn [shift_res]; [rewrite <- adv_shift|]; reflexivity.
    + (* ERef *) destruct (lookup g n) as [r|] eqn:EL; [|reflexivity].
      assert (B := all_grammar_lookup not_soi g n r Hg EL).
      change ({| s_pos := s_pos s + d; s_rest := s_rest s; s_stk := s_stk s; s_tags := s_tags s;
                 s_trk := shift_trk (s_trk s) |}) with (shift_st s).
      rewrite push_tag_shift. rewrite (IH (rule_ctx c r) (TEval (r_body r)) _ B Hg).
      destruct (run g f (rule_ctx c r) (TEval (r_body r)) (push_tag tag s)) as [s1 kids|t| |];
        try reflexivity.
      cbn [shift_res]. unfold finish_rule.
      destruct (r_silent r); [cbn [shift_res]; rewrite pop_tag_shift; reflexivity|].
      destruct (visible c r); cbn [shift_res s_tags s_pos shift_st].
      * change (set_tags (shift_st s1) (tl (s_tags s1))) with (shift_st (set_tags s1 (tl (s_tags s1)))).
        rewrite pop_tag_shift. reflexivity.
      * change (set_tags (shift_st s1) (tl (s_tags s1))) with (shift_st (set_tags s1 (tl (s_tags s1)))).
        rewrite pop_tag_shift. reflexivity.
    + apply (IH c (TSeq es) s); assumption.
    + apply (IH c (TAlt es) s); assumption.
    + (* EOpt *)
      change ({| s_pos := s_pos s + d; s_rest := s_rest s; s_stk := s_stk s; s_tags := s_tags s;
                 s_trk := shift_trk (s_trk s) |}) with (shift_st s).
      rewrite (IH c (TEval e) s Ht Hg).
      destruct (run g f c (TEval e) s); reflexivity.
    + (* EStar *)
      change ({| s_pos := s_pos s + d; s_rest := s_rest s; s_stk := s_stk s; s_tags := s_tags s;
                 s_trk := shift_trk (s_trk s) |}) with (shift_st s).
      rewrite (IH c (TEval e) s Ht Hg).
      destruct (run g f c (TEval e) s) as [s1 p1|t| |]; try reflexivity.
      cbn [shift_res]. rewrite (IH c (TStar e) s1 Ht Hg).
      destruct (run g f c (TStar e) s1); try reflexivity.
      cbn [shift_res]. rewrite shift_pairs_app. reflexivity.
    + apply (IH c (TSeq [e; EStar e]) s); [cbn; rewrite !Ht; reflexivity|exact Hg].
    + apply (IH c (TSeq (repeat e n)) s); [cbn [all_task]; apply all_list_repeat; exact Ht|exact Hg].
    + apply (IH c (TSeq (repeat e n ++ [EStar e])) s); [|exact Hg].
      cbn [all_task]. rewrite all_list_app, all_list_repeat by exact Ht. cbn. rewrite Ht. reflexivity.
    + apply (IH c (TSeq (repeat (EOpt e) n)) s); [|exact Hg].
      cbn [all_task]. apply all_list_repeat. cbn. exact Ht.
    + apply (IH c (TSeq (repeat e m ++ repeat (EOpt e) (n - m))) s); [|exact Hg].
      cbn [all_task]. rewrite all_list_app, !all_list_repeat; [reflexivity|cbn; exact Ht|exact Ht].
    + (* EAnd *)
      change ({| s_pos := s_pos s + d; s_rest := s_rest s; s_stk := s_stk s; s_tags := s_tags s;
                 s_trk := shift_trk (s_trk s) |}) with (shift_st s).
      rewrite (IH c (TEval e) s Ht Hg).
      destruct (run g f c (TEval e) s); reflexivity.
    + (* ENot *)
      change ({| s_pos := s_pos s + d; s_rest := s_rest s; s_stk := s_stk s; s_tags := s_tags s;
                 s_trk := shift_trk (s_trk s) |}) with (shift_st s).
      rewrite (IH (neg_ctx c) (TEval e) s Ht Hg).
      destruct (run g f (neg_ctx c) (TEval e) s) as [s1 p1|t| |]; try reflexivity.
      cbn [shift_res]. rewrite <- record_shift. reflexivity.
    + (* EGrp *)
      change ({| s_pos := s_pos s + d; s_rest := s_rest s; s_stk := s_stk s; s_tags := s_tags s;
                 s_trk := shift_trk (s_trk s) |}) with (shift_st s).
      rewrite push_tag_shift. rewrite (IH c (TEval e) _ Ht Hg).
      destruct (run g f c (TEval e) (push_tag tag s)); try reflexivity.
      cbn [shift_res]. rewrite pop_tag_shift. reflexivity.
    + (* EPush *)
      change ({| s_pos := s_pos s + d; s_rest := s_rest s; s_stk := s_stk s; s_tags := s_tags s;
                 s_trk := shift_trk (s_trk s) |}) with (shift_st s).
      rewrite (IH c (TEval e) s Ht Hg).
      destruct (run g f c (TEval e) s) as [s1 p1|t| |]; try reflexivity.
      cbn [shift_res shift_st s_pos s_rest s_stk].
      replace (s_pos s1 + d - (s_pos s + d))%N with (s_pos s1 - s_pos s)%N by lia.
      reflexivity.
    + reflexivity.
    + (* EPeek *) destruct (s_stk s); [reflexivity|].
      destruct (strip_prefix _ _); cbn [shift_res]; [rewrite <- adv_shift|rewrite <- record_shift]; reflexivity.
    + destruct (match_all _ _ _) as [[r n]|]; cbn [shift_res];
        [rewrite <- adv_shift|rewrite <- record_shift]; reflexivity.
    + destruct (match_all _ _ _) as [[r n]|]; cbn [shift_res];
        [rewrite <- adv_shift|rewrite <- record_shift]; reflexivity.
    + (* EPop *) destruct (s_stk s); [reflexivity|].
      destruct (strip_prefix _ _); cbn [shift_res]; [|rewrite <- record_shift; reflexivity].
      unfold set_stk, adv, shift_st. cbn. f_equal. f_equal. lia.
    + destruct (match_all _ _ _) as [[r n]|]; cbn [shift_res]; [|rewrite <- record_shift; reflexivity].
      unfold set_stk, adv, shift_st. cbn. f_equal. f_equal. lia.
    + (* EDrop *) destruct (s_stk s); cbn [shift_res]; [rewrite <- record_shift|]; reflexivity.
    + (* ESkipUntil *) cbn [shift_res]. rewrite <- adv_shift. reflexivity.
  - cbn [run]. destruct es as [|e1 es']; [reflexivity|].
    cbn [all_list forallb] in Ht. apply andb_prop in Ht. destruct Ht as [H1 H2].
    rewrite (IH c (TEval e1) s H1 Hg).
    destruct (run g f c (TEval e1) s) as [s1 p1|t| |]; try reflexivity.
    cbn [shift_res]. destruct es' as [|e2 es'']; [reflexivity|].
    rewrite IHk.
    destruct (skip_with g _ c s1) as [s2 pw|t| |]; try reflexivity.
    cbn [shift_res]. rewrite (IH c (TSeq (e2 :: es'')) s2 H2 Hg).
    destruct (run g f c (TSeq (e2 :: es'')) s2); try reflexivity.
    cbn [shift_res]. rewrite !shift_pairs_app. reflexivity.
  - cbn [run]. destruct es as [|e1 es']; [reflexivity|].
    cbn [all_list forallb] in Ht. apply andb_prop in Ht. destruct Ht as [H1 H2].
    rewrite (IH c (TEval e1) s H1 Hg).
    destruct (run g f c (TEval e1) s) as [s1 p1|t| |]; try reflexivity.
    cbn [shift_res]. apply (IH c (TAlt es') (set_trk s t) H2 Hg).
  - cbn [run]. rewrite IHk.
    destruct (skip_with g _ c s) as [s2 pw|t| |]; try reflexivity.
    cbn [shift_res]. rewrite (IH c (TEval e) s2 Ht Hg).
    destruct (run g f c (TEval e) s2) as [s3 p3|t| |]; try reflexivity.
    cbn [shift_res]. rewrite (IH c (TStar e) s3 Ht Hg).
    destruct (run g f c (TStar e) s3); try reflexivity.
    cbn [shift_res]. rewrite !shift_pairs_app. reflexivity.
Qed.

End Shift.

(* parse at start_pos = k is parse of the suffix at 0, shifted by k *)
Theorem parse_shift : forall g f rule input k,
  all_grammar not_soi g = true -> k <= length input ->
  parse g f rule input k = shift_res (N.of_nat k) (parse g f rule (skipn k input) 0).
Proof.
  intros g f rule input k Hg Hk. unfold parse, eval.
  assert (E : st0 input k = shift_st (N.of_nat k) (st0 (skipn k input) 0)).
  { unfold st0, shift_st. cbn. f_equal. }
  rewrite E. apply shift_all; [reflexivity|exact Hg].
Qed.

(* characters before start_pos are never consulted *)
Theorem parse_prefix_irrelevant : forall g f rule pre pre' rest,
  all_grammar not_soi g = true -> length pre = length pre' ->
  parse g f rule (pre ++ rest) (length pre) = parse g f rule (pre' ++ rest) (length pre').
Proof.
  intros g f rule pre pre' rest Hg HL.
  rewrite (parse_shift g f rule (pre ++ rest) (length pre) Hg) by (rewrite app_length; lia).
  rewrite (parse_shift g f rule (pre' ++ rest) (length pre') Hg) by (rewrite app_length; lia).
  rewrite !skipn_app, !skipn_all, !Nat.sub_diag. cbn. rewrite HL. reflexivity.
Qed.
