(* OptPassIdem.v — the unroll pass is complete and idempotent: its image contains none of the operators it
   rewrites, and on such a table it is the identity (so repeating the pass changes nothing). *)
From Coq Require Import List NArith ZArith Bool Arith Lia.
Import ListNotations.
From PP Require Import Base Syntax Spec SpecSyn Opt OptPass OptPassProof.
Open Scope nat_scope.

Lemma strip_no_rep a : all_sub no_rep a = true -> all_sub no_rep (strip_grp a) = true.
Proof.
  destruct a; try (intros H; exact H). destruct tag; [intros H; exact H|].
  cbn [strip_grp all_sub no_rep andb]. intros H. exact H.
Qed.

Lemma unroll_no_rep : forall f e, depth e <= f -> all_sub no_rep (unroll_bu e) = true.
Proof.
  induction f as [|f IH]; intros e D; [pose proof (depth_pos e); lia|].
  assert (L : forall es, depths es <= f -> all_list no_rep (map unroll_bu es) = true).
  { induction es as [|x es IHes]; intros Dl; [reflexivity|].
    change (depths (x :: es)) with (Nat.max (depth x) (depths es)) in Dl.
    cbn [all_list forallb map]. rewrite (IH x); [|lia]. apply IHes. lia. }
  destruct e; try reflexivity; cbn [depth] in D.
  - rewrite unroll_seq, all_sub_seq. cbn [no_rep andb]. apply L. change (S (depths es) <= S f) in D. lia.
  - rewrite unroll_alt, all_sub_alt. cbn [no_rep andb]. apply L. change (S (depths es) <= S f) in D. lia.
  - change (unroll_bu (EOpt e)) with (EOpt (unroll_bu e)). cbn [all_sub no_rep andb]. apply IH. lia.
  - rewrite unroll_star. cbn [all_sub no_rep andb]. apply IH. lia.
  - assert (A : all_sub no_rep (unroll_bu e) = true) by (apply IH; lia).
    rewrite unroll_plus, all_sub_seq. cbn [no_rep andb all_list forallb all_sub].
    rewrite A, (strip_no_rep _ A). reflexivity.
  - assert (A : all_sub no_rep (unroll_bu e) = true) by (apply IH; lia).
    rewrite unroll_repn, all_sub_seq. cbn [no_rep andb]. apply all_list_repeat. exact A.
  - assert (A : all_sub no_rep (unroll_bu e) = true) by (apply IH; lia).
    rewrite unroll_repmin, all_sub_seq. cbn [no_rep andb]. rewrite all_list_app, all_list_repeat by exact A.
    cbn [all_list forallb all_sub no_rep andb]. rewrite A. reflexivity.
  - assert (A : all_sub no_rep (unroll_bu e) = true) by (apply IH; lia).
    rewrite unroll_repmax, all_sub_seq. cbn [no_rep andb]. apply all_list_repeat. cbn [all_sub no_rep andb]. exact A.
  - assert (A : all_sub no_rep (unroll_bu e) = true) by (apply IH; lia).
    rewrite unroll_repmm, all_sub_seq. cbn [no_rep andb]. rewrite all_list_app, all_list_repeat by exact A.
    apply all_list_repeat. cbn [all_sub no_rep andb]. exact A.
  - change (unroll_bu (EAnd e)) with (EAnd (unroll_bu e)). cbn [all_sub no_rep andb]. apply IH. lia.
  - change (unroll_bu (ENot e)) with (ENot (unroll_bu e)). cbn [all_sub no_rep andb]. apply IH. lia.
  - change (unroll_bu (EGrp e tag)) with (EGrp (unroll_bu e) tag). cbn [all_sub no_rep andb]. apply IH. lia.
  - change (unroll_bu (EPush e)) with (EPush (unroll_bu e)). cbn [all_sub no_rep andb]. apply IH. lia.
Qed.

Lemma unroll_fix : forall f e, depth e <= f -> all_sub no_rep e = true -> unroll_bu e = e.
Proof.
  induction f as [|f IH]; intros e D C; [pose proof (depth_pos e); lia|].
  assert (L : forall es, depths es <= f -> all_list no_rep es = true -> map unroll_bu es = es).
  { induction es as [|x es IHes]; intros Dl Cl; [reflexivity|].
    change (depths (x :: es)) with (Nat.max (depth x) (depths es)) in Dl.
    cbn [all_list forallb map] in *. apply andb_prop in Cl. destruct Cl as [C1 C2].
    rewrite (IH x); [|lia|exact C1]. f_equal. apply IHes; [lia|exact C2]. }
  destruct e; try reflexivity; cbn [depth] in D;
    try (cbn [all_sub no_rep andb] in C; discriminate).
  - rewrite unroll_seq. rewrite all_sub_seq in C. cbn [no_rep andb] in C. f_equal.
    apply L; [change (S (depths es) <= S f) in D; lia|exact C].
  - rewrite unroll_alt. rewrite all_sub_alt in C. cbn [no_rep andb] in C. f_equal.
    apply L; [change (S (depths es) <= S f) in D; lia|exact C].
  - change (unroll_bu (EOpt e)) with (EOpt (unroll_bu e)). cbn [all_sub no_rep andb] in C. f_equal. apply IH; [lia|exact C].
  - rewrite unroll_star. cbn [all_sub no_rep andb] in C. f_equal. apply IH; [lia|exact C].
  - change (unroll_bu (EAnd e)) with (EAnd (unroll_bu e)). cbn [all_sub no_rep andb] in C. f_equal. apply IH; [lia|exact C].
  - change (unroll_bu (ENot e)) with (ENot (unroll_bu e)). cbn [all_sub no_rep andb] in C. f_equal. apply IH; [lia|exact C].
  - change (unroll_bu (EGrp e tag)) with (EGrp (unroll_bu e) tag). cbn [all_sub no_rep andb] in C. f_equal. apply IH; [lia|exact C].
  - change (unroll_bu (EPush e)) with (EPush (unroll_bu e)). cbn [all_sub no_rep andb] in C. f_equal. apply IH; [lia|exact C].
Qed.

Theorem unroll_idempotent e : unroll_bu (unroll_bu e) = unroll_bu e.
Proof. apply (unroll_fix (depth (unroll_bu e))); [apply le_n|]. exact (unroll_no_rep (depth e) e (le_n _)). Qed.

Theorem pass_unroll_idempotent bi g : pass_unroll bi (pass_unroll bi g) = pass_unroll bi g.
Proof.
  unfold pass_unroll, step_bu. rewrite map_map. apply map_ext. intros r.
  destruct (bi (r_name r)) eqn:B; [rewrite B; reflexivity|].
  cbn [set_body r_name r_body]. rewrite B. unfold set_body. cbn [r_name r_silent r_kind r_body].
  f_equal. exact (unroll_idempotent (r_body r)).
Qed.
