(* Interp.v — model of the tree-walking interpreter: one clause per `parse()` method of
   src/pest/grammar/expressions/*.py, rule.py (Rule.parse) and state.py (parse_trivia,
   checkpoint / ok / restore, atomic_checkpoint, fail), on an imperative state with an explicit
   checkpoint stack. Unlike the reference semantics (Spec.v) a failing expression does NOT
   restore anything by itself: callers that backtrack bracket the attempt with
   checkpoint()/restore(), exactly as the Python code does; pairs are created for every
   non-silent rule and filtered when an atomic rule returns (visible_in_atomic).
   The user stack, rule stack and counter are kept abstractly (lists / a number with a list of
   saved copies); SnapStackProof.v shows the delta-encoded versions refine these. *)
From Coq Require Import List NArith ZArith Bool Arith.
Import ListNotations.
From PP Require Import Base Syntax Spec.

(* what checkpoint() saves: position (and remaining text), user stack, rule stack, pending tags;
   the atomic depth goes to its own list of saved values (SnapshottingInt._checkpoints), which
   atomic_checkpoint() shares *)
Definition snap := (N * text * list text * list N * list N)%type.

Record ist := {
  i_pos : N; i_rest : text;
  i_user : list text;            (* user_stack, head = top *)
  i_rules : list N;              (* rule_stack (names), head = top *)
  i_depth : nat;                 (* atomic_depth *)
  i_dcps : list nat;             (* atomic_depth._checkpoints *)
  i_tags : list N;               (* tag_stack, head = top *)
  i_saved : list snap;           (* _pos_history / stack snapshots / _tag_history *)
  i_neg : nat;                   (* neg_pred_depth *)
  i_sup : bool;                  (* _suppress_failures *)
  i_trk : trk
}.

Inductive ires :=
| IOk (matched : bool) (s : ist) (ps : list pair)   (* ps: what the call appended to `pairs` *)
| ICrash            (* IndexError / AssertionError: an operation the discipline must exclude *)
| IUndef            (* KeyError: reference to an undefined rule *)
| IFuel.

(* ---- ParserState operations ---- *)
Definition upd_pos (s : ist) (p : N) (r : text) : ist :=
  {| i_pos := p; i_rest := r; i_user := i_user s; i_rules := i_rules s; i_depth := i_depth s;
     i_dcps := i_dcps s; i_tags := i_tags s; i_saved := i_saved s; i_neg := i_neg s; i_sup := i_sup s;
     i_trk := i_trk s |}.
Definition upd_user (s : ist) (u : list text) : ist :=
  {| i_pos := i_pos s; i_rest := i_rest s; i_user := u; i_rules := i_rules s; i_depth := i_depth s;
     i_dcps := i_dcps s; i_tags := i_tags s; i_saved := i_saved s; i_neg := i_neg s; i_sup := i_sup s;
     i_trk := i_trk s |}.
Definition upd_rules (s : ist) (r : list N) : ist :=
  {| i_pos := i_pos s; i_rest := i_rest s; i_user := i_user s; i_rules := r; i_depth := i_depth s;
     i_dcps := i_dcps s; i_tags := i_tags s; i_saved := i_saved s; i_neg := i_neg s; i_sup := i_sup s;
     i_trk := i_trk s |}.
Definition upd_depth (s : ist) (d : nat) (cps : list nat) : ist :=
  {| i_pos := i_pos s; i_rest := i_rest s; i_user := i_user s; i_rules := i_rules s; i_depth := d;
     i_dcps := cps; i_tags := i_tags s; i_saved := i_saved s; i_neg := i_neg s; i_sup := i_sup s;
     i_trk := i_trk s |}.
Definition upd_tags (s : ist) (t : list N) : ist :=
  {| i_pos := i_pos s; i_rest := i_rest s; i_user := i_user s; i_rules := i_rules s; i_depth := i_depth s;
     i_dcps := i_dcps s; i_tags := t; i_saved := i_saved s; i_neg := i_neg s; i_sup := i_sup s;
     i_trk := i_trk s |}.
Definition upd_neg (s : ist) (n : nat) : ist :=
  {| i_pos := i_pos s; i_rest := i_rest s; i_user := i_user s; i_rules := i_rules s; i_depth := i_depth s;
     i_dcps := i_dcps s; i_tags := i_tags s; i_saved := i_saved s; i_neg := n; i_sup := i_sup s;
     i_trk := i_trk s |}.
Definition upd_sup (s : ist) (b : bool) : ist :=
  {| i_pos := i_pos s; i_rest := i_rest s; i_user := i_user s; i_rules := i_rules s; i_depth := i_depth s;
     i_dcps := i_dcps s; i_tags := i_tags s; i_saved := i_saved s; i_neg := i_neg s; i_sup := b;
     i_trk := i_trk s |}.
Definition upd_trk (s : ist) (t : trk) : ist :=
  {| i_pos := i_pos s; i_rest := i_rest s; i_user := i_user s; i_rules := i_rules s; i_depth := i_depth s;
     i_dcps := i_dcps s; i_tags := i_tags s; i_saved := i_saved s; i_neg := i_neg s; i_sup := i_sup s;
     i_trk := t |}.

(* ParserState.checkpoint *)
Definition icheckpoint (s : ist) : ist :=
  {| i_pos := i_pos s; i_rest := i_rest s; i_user := i_user s; i_rules := i_rules s; i_depth := i_depth s;
     i_dcps := i_depth s :: i_dcps s; i_tags := i_tags s;
     i_saved := (i_pos s, i_rest s, i_user s, i_rules s, i_tags s) :: i_saved s;
     i_neg := i_neg s; i_sup := i_sup s; i_trk := i_trk s |}.

(* ParserState.ok: _pos_history.pop() raises IndexError when there is no checkpoint *)
Definition iok (s : ist) : option ist :=
  match i_saved s with
  | [] => None
  | _ :: sv =>
      Some {| i_pos := i_pos s; i_rest := i_rest s; i_user := i_user s; i_rules := i_rules s;
              i_depth := i_depth s; i_dcps := tl (i_dcps s); i_tags := i_tags s; i_saved := sv;
              i_neg := i_neg s; i_sup := i_sup s; i_trk := i_trk s |}
  end.

(* ParserState.restore *)
Definition irestore (s : ist) : option ist :=
  match i_saved s with
  | [] => None
  | (p, r, u, rl, tg) :: sv =>
      Some {| i_pos := p; i_rest := r; i_user := u; i_rules := rl;
              i_depth := match i_dcps s with d :: _ => d | [] => 0 end; i_dcps := tl (i_dcps s);
              i_tags := tg; i_saved := sv; i_neg := i_neg s; i_sup := i_sup s; i_trk := i_trk s |}
  end.

(* ParserState.fail(label, rule_name=..., force=...) *)
Definition ifail (s : ist) (force : bool) (name : option N) : option ist :=
  if ((Nat.ltb 0 (i_neg s)) && negb force) || i_sup s then Some s else
  match (match name with Some n => Some n | None => hd_error (i_rules s) end) with
  | None => None                (* rule_stack[-1] on an empty stack *)
  | Some n =>
      let t := i_trk s in
      let p := Z.of_N (i_pos s) in
      let negctx := Nat.odd (i_neg s) in
      Some (upd_trk s
        (if (t_pos t <? p)%Z then
           (if negctx then {| t_pos := p; t_exp := []; t_unexp := [n] |}
            else {| t_pos := p; t_exp := [n]; t_unexp := [] |})
         else if (p =? t_pos t)%Z then
           (if negctx then {| t_pos := t_pos t; t_exp := t_exp t; t_unexp := addN n (t_unexp t) |}
            else {| t_pos := t_pos t; t_exp := addN n (t_exp t); t_unexp := t_unexp t |})
         else t))
  end.

(* rule.py: visible_in_atomic — pairs of `$` / `!` rules survive with everything below them,
   the others are replaced by what survives of their children *)
Section Vis.
Variable g : grammar.

Definition keeps (n : N) : bool :=
  match lookup g n with
  | Some r => match r_kind r with KCompound | KNonAtomic => true | _ => false end
  | None => false
  end.

Fixpoint vis_pair (p : pair) : list pair :=
  match p with
  | Pair n s e kids tag =>
      if keeps n then [p]
      else (fix go (ks : list pair) : list pair :=
              match ks with [] => [] | k :: ks' => vis_pair k ++ go ks' end) kids
  end.
Fixpoint vis (ps : list pair) : list pair :=
  match ps with [] => [] | p :: ps' => vis_pair p ++ vis ps' end.

(* Rule.hides_inner_pairs *)
Definition hides (r : rule) : bool :=
  match r_kind r with
  | KAtomic => true
  | KCompound => false
  | _ => is_trivia_name (r_name r)
  end.

(* how Rule.parse changes atomic_depth for its body: +1, zero, or unchanged *)
Inductive dmode := DInc | DZero | DSame.
Definition depth_mode (r : rule) : dmode :=
  match r_kind r with
  | KAtomic | KCompound => DInc
  | KNonAtomic => if is_trivia_name (r_name r) then DInc else DZero
  | KNormal => if is_trivia_name (r_name r) then DInc else DSame
  end.

Inductive itask :=
| IEval (e : expr)
| ISeq (es : list expr)              (* Sequence.parse: the loop over the remaining elements *)
| IAlt (es : list expr)              (* Choice.parse: the loop over the remaining alternatives *)
| IStar (e : expr) (first : bool)    (* Repeat.parse: the while loop *)
| ITrivia                            (* ParserState.parse_trivia *)
| IWsLoop                            (* ... its inner `while self._parse_trivia_rule(whitespace_rule)` *)
| ITrivLoop                          (* ... its outer `while True` *)
| ITrivRule (n : N)                  (* ParserState._parse_trivia_rule *)
| IRule (r : rule).                  (* Rule.parse *)

Definition adv_i (s : ist) (n : N) (r : text) : ist := upd_pos s (i_pos s + n)%N r.

(* terminal that fails after state.fail(label) with the current rule *)
Definition fail_here (s : ist) : ires :=
  match ifail s false None with Some s' => IOk false s' [] | None => ICrash end.

Definition has_rule (n : N) : bool := match lookup g n with Some _ => true | None => false end.

Fixpoint irun (fuel : nat) (t : itask) (s : ist) {struct fuel} : ires :=
  match fuel with
  | O => IFuel
  | S f =>
  match t with
  | IEval e =>
    match e with
    | EStr lit =>
        match strip_prefix lit (i_rest s) with
        | Some r => IOk true (adv_i s (lenN lit) r) []
        | None => fail_here s
        end
    | ECIStr lit =>
        match strip_prefix_ci lit (i_rest s) with
        | Some r => IOk true (adv_i s (lenN lit) r) []
        | None => fail_here s
        end
    | ERange lo hi =>
        match i_rest s with
        | d :: r => if N.leb lo d && N.leb d hi then IOk true (adv_i s 1 r) [] else fail_here s
        | [] => fail_here s
        end
    | EAny => match i_rest s with _ :: r => IOk true (adv_i s 1 r) [] | [] => IOk false s [] end
    | ESoi => IOk (N.eqb (i_pos s) 0) s []
    | EEoi => IOk (match i_rest s with [] => true | _ => false end) s []
    | ECls rs =>
        match i_rest s with
        | d :: r => if in_ranges d rs then IOk true (adv_i s 1 r) [] else IOk false s []
        | [] => IOk false s []
        end
    | ERef n tag =>
        (* Identifier.parse: `with state.tag(tag): return rules[name].parse(state, pairs)` *)
        match lookup g n with
        | None => IUndef
        | Some r =>
            let s0 := match tag with Some tg => upd_tags s (tg :: i_tags s) | None => s end in
            match irun f (IRule r) s0 with
            | IOk m s1 ps =>
                IOk m (match tag with Some _ => upd_tags s1 (tl (i_tags s1)) | None => s1 end) ps
            | x => x
            end
        end
    | ESeq es => irun f (ISeq es) s
    | EAlt es => irun f (IAlt es) s
    | EOpt e1 =>
        match irun f (IEval e1) (icheckpoint s) with
        | IOk true s1 ps => match iok s1 with Some s2 => IOk true s2 ps | None => ICrash end
        | IOk false s1 _ => match irestore s1 with Some s2 => IOk true s2 [] | None => ICrash end
        | x => x
        end
    | EStar e1 => irun f (IStar e1 true) s
    (* the bounded repetitions delegate to their unrolled sequences (postfix.py: unrolled()) *)
    | EPlus e1 => irun f (ISeq [e1; EStar e1]) s
    | ERepN e1 n => irun f (ISeq (repeat e1 n)) s
    | ERepMin e1 n => irun f (ISeq (repeat e1 n ++ [EStar e1])) s
    | ERepMax e1 n => irun f (ISeq (repeat (EOpt e1) n)) s
    | ERepMinMax e1 m n => irun f (ISeq (repeat e1 m ++ repeat (EOpt e1) (n - m))) s
    | EAnd e1 =>
        match irun f (IEval e1) (icheckpoint s) with
        | IOk m s1 _ => match irestore s1 with Some s2 => IOk m s2 [] | None => ICrash end
        | x => x
        end
    | ENot e1 =>
        (* checkpoint; neg_pred_depth += 1; parse; restore; [fail(force)]; neg_pred_depth -= 1 *)
        match irun f (IEval e1) (upd_neg (icheckpoint s) (S (i_neg s))) with
        | IOk m s1 _ =>
            match irestore s1 with
            | None => ICrash
            | Some s2 =>
                if m then
                  let name := match e1 with ERef n _ => Some n | _ => None end in
                  match ifail s2 true name with
                  | Some s3 => IOk false (upd_neg s3 (pred (i_neg s3))) []
                  | None => ICrash
                  end
                else IOk true (upd_neg s2 (pred (i_neg s2))) []
            end
        | x => x
        end
    | EGrp e1 tag =>
        let s0 := match tag with Some tg => upd_tags s (tg :: i_tags s) | None => s end in
        match irun f (IEval e1) s0 with
        | IOk m s1 ps =>
            IOk m (match tag with Some _ => upd_tags s1 (tl (i_tags s1)) | None => s1 end) ps
        | x => x
        end
    | EPush e1 =>
        match irun f (IEval e1) s with
        | IOk true s1 ps =>
            let w := firstn (N.to_nat (i_pos s1 - i_pos s)) (i_rest s) in
            IOk true (upd_user s1 (w :: i_user s1)) ps
        | x => x
        end
    | EPushLit w => IOk true (upd_user s (w :: i_user s)) []
    | EPeek =>
        match i_user s with
        | [] => IOk false s []
        | w :: _ =>
            match strip_prefix w (i_rest s) with
            | Some r => IOk true (adv_i s (lenN w) r) []
            | None => fail_here s
            end
        end
    | EPop =>
        match i_user s with
        | [] => IOk false s []
        | w :: k =>
            match strip_prefix w (i_rest s) with
            | Some r => IOk true (upd_user (adv_i s (lenN w) r) k) []
            | None => fail_here s
            end
        end
    | EDrop =>
        match i_user s with
        | [] => fail_here s
        | _ :: k => IOk true (upd_user s k) []
        end
    | EPeekAll =>
        match match_all (i_user s) (i_rest s) 0 with
        | Some (r, n) => IOk true (adv_i s n r) []
        | None => fail_here s
        end
    | EPopAll =>
        match match_all (i_user s) (i_rest s) 0 with
        | Some (r, n) => IOk true (upd_user (adv_i s n r) []) []
        | None => fail_here s
        end
    | EPeekSl a b =>
        match match_all (py_slice (rev (i_user s)) a b) (i_rest s) 0 with
        | Some (r, n) => IOk true (adv_i s n r) []
        | None => fail_here s
        end
    | ESkipUntil subs =>
        let n := match earliest subs (i_rest s) None with
                 | Some p => p
                 | None => lenN (i_rest s)
                 end in
        IOk true (adv_i s n (skipn (N.to_nat n) (i_rest s))) []
    end
  | ISeq es =>
      (* for i, expr in enumerate(expressions): if not expr.parse(): return False;
         if i < len - 1: state.parse_trivia(children) *)
      match es with
      | [] => IOk true s []
      | e1 :: es' =>
          match irun f (IEval e1) s with
          | IOk true s1 p1 =>
              match es' with
              | [] => IOk true s1 p1
              | _ =>
                  match irun f ITrivia s1 with
                  | IOk _ s2 pw =>
                      match irun f (ISeq es') s2 with
                      | IOk true s3 p3 => IOk true s3 (p1 ++ pw ++ p3)
                      | x => x
                      end
                  | x => x
                  end
              end
          | x => x
          end
      end
  | IAlt es =>
      match es with
      | [] => IOk false s []
      | e1 :: es' =>
          match irun f (IEval e1) (icheckpoint s) with
          | IOk true s1 ps => match iok s1 with Some s2 => IOk true s2 ps | None => ICrash end
          | IOk false s1 _ =>
              match irestore s1 with Some s2 => irun f (IAlt es') s2 | None => ICrash end
          | x => x
          end
      end
  | IStar e1 first =>
      (* while True: checkpoint(); if not first: parse_trivia(children); matched = e.parse(children)
         if not matched: restore(); break   else: ok(); pairs.extend(children); first = False *)
      let s0 := icheckpoint s in
      match (if first then IOk false s0 [] else irun f ITrivia s0) with
      | IOk _ s1 pw =>
          match irun f (IEval e1) s1 with
          | IOk true s2 p2 =>
              match iok s2 with
              | None => ICrash
              | Some s3 =>
                  match irun f (IStar e1 false) s3 with
                  | IOk m s4 p4 => IOk m s4 (pw ++ p2 ++ p4)
                  | x => x
                  end
              end
          | IOk false s2 _ =>
              match irestore s2 with Some s3 => IOk true s3 [] | None => ICrash end
          | x => x
          end
      | x => x
      end
  | ITrivia =>
      (* if atomic_depth > 0: return; no WHITESPACE/COMMENT: return;
         with suppress_failures(): <ITrivLoop> *)
      if Nat.ltb 0 (i_depth s) then IOk false s []
      else if negb (has_rule WS_ID) && negb (has_rule CM_ID) then IOk false s []
      else
        match irun f ITrivLoop (upd_sup s true) with
        | IOk m s1 ps => IOk m (upd_sup s1 (i_sup s)) ps
        | x => x
        end
  | ITrivLoop =>
      (* while True: [whitespace loop]; if not comment_rule or not _parse_trivia_rule(comment): break *)
      match (if has_rule WS_ID then irun f IWsLoop s else IOk false s []) with
      | IOk _ s1 p1 =>
          if has_rule CM_ID then
            match irun f (ITrivRule CM_ID) s1 with
            | IOk true s2 p2 =>
                match irun f ITrivLoop s2 with
                | IOk m s3 p3 => IOk m s3 (p1 ++ p2 ++ p3)
                | x => x
                end
            | IOk false s2 _ => IOk true s2 p1
            | x => x
            end
          else IOk true s1 p1
      | x => x
      end
  | IWsLoop =>
      match irun f (ITrivRule WS_ID) s with
      | IOk true s1 p1 =>
          match irun f IWsLoop s1 with
          | IOk m s2 p2 => IOk m s2 (p1 ++ p2)
          | x => x
          end
      | IOk false s1 _ => IOk true s1 []
      | x => x
      end
  | ITrivRule n =>
      (* checkpoint(); if rule.parse(children): ok(); pairs.extend(children); return True
         restore(); return False *)
      match lookup g n with
      | None => IUndef
      | Some r =>
          match irun f (IRule r) (icheckpoint s) with
          | IOk true s1 ps => match iok s1 with Some s2 => IOk true s2 ps | None => ICrash end
          | IOk false s1 _ => match irestore s1 with Some s2 => IOk false s2 [] | None => ICrash end
          | x => x
          end
      end
  | IRule r =>
      (* start = pos; rule_stack.push(self); [with atomic_checkpoint(): depth += 1 | zero()] body;
         rule_stack.pop(); if not matched: return False; silent: extend; else pop tag,
         [hide inner pairs], append Pair *)
      let start := i_pos s in
      let s1 := upd_rules s (r_name r :: i_rules s) in
      let s2 := match depth_mode r with
                | DInc => upd_depth s1 (S (i_depth s1)) (i_depth s1 :: i_dcps s1)
                | DZero => upd_depth s1 0 (i_depth s1 :: i_dcps s1)
                | DSame => s1
                end in
      match irun f (IEval (r_body r)) s2 with
      | IOk m s3 kids =>
          (* leaving the `with`: atomic_depth.restore() *)
          let s4 := match depth_mode r with
                    | DSame => s3
                    | _ => upd_depth s3 (match i_dcps s3 with d :: _ => d | [] => 0 end) (tl (i_dcps s3))
                    end in
          match i_rules s4 with
          | [] => ICrash                       (* rule_stack.pop() on an empty stack *)
          | _ :: rl =>
              let s5 := upd_rules s4 rl in
              if negb m then IOk false s5 []
              else if r_silent r then IOk true s5 (if hides r then vis kids else kids)
              else
                let tg := match i_tags s5 with t0 :: _ => Some t0 | [] => None end in
                let s6 := upd_tags s5 (tl (i_tags s5)) in
                let kids' := if hides r then vis kids else kids in
                IOk true s6 [Pair (r_name r) start (i_pos s5) kids' tg]
          end
      | x => x
      end
  end
  end.

Definition ist0 (input : text) (k : nat) : ist :=
  {| i_pos := N.of_nat k; i_rest := skipn k input; i_user := []; i_rules := []; i_depth := 0; i_dcps := [];
     i_tags := []; i_saved := []; i_neg := 0; i_sup := false; i_trk := trk0 |}.

(* Parser.parse(rule, text, start_pos=k): rules[start_rule].parse(state, pairs) *)
Definition iparse (fuel : nat) (rule : N) (input : text) (k : nat) : ires :=
  match lookup g rule with
  | None => IUndef
  | Some r => irun fuel (IRule r) (ist0 input k)
  end.

End Vis.
