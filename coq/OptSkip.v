From Coq Require Import List NArith ZArith Bool Arith Lia.
Import ListNotations.
From PP Require Import Base Syntax Spec SpecMono SpecLaws SpecEquiv CharClass CharClassProof Opt OptProof.
Local Open Scope nat_scope.

(* OptSkip.v — validation of the fused rule SKIP that the optimizer adds to the optimised table:
   one call of SKIP (failure recording suppressed) is pest's implicit skipping of the ORIGINAL
   grammar.  `ochk_grammar` ignores the rule named SKIP_ID; `ochk_skip` checks it. *)

(* ------------------------------------------------------------------------------------ *)
(* 1. the checker                                                                        *)
(* ------------------------------------------------------------------------------------ *)

Definition star_body (e : expr) : option expr :=
  match e with EStar b => Some b | _ => None end.

Lemma star_body_inv e b : star_body e = Some b -> e = EStar b.
Proof. destruct e; cbn; intros H; try discriminate. inversion H; reflexivity. Qed.

(* the rule `rt` of g (WHITESPACE or COMMENT) is silent with no other modifier and its body is
   related to b' by the validator, implicit trivia being off (its body is matched atomically) *)
Definition trivia_rule_ok (g g' : grammar) (fuel : nat) (rt : rule) (b' : expr) : bool :=
  r_silent rt && kind_eqb (r_kind rt) KNormal && ochk g g' fuel true (r_body rt) b'.

Definition ochk_skip (g g' : grammar) (fuel : nat) : bool :=
  match lookup g' SKIP_ID with
  | None => true
  | Some r' =>
      r_silent r' && kind_eqb (r_kind r') KAtomic &&
      match star_body (r_body r') with
      | Some b' =>
          match lookup g WS_ID, lookup g CM_ID with
          | None, Some rc => trivia_rule_ok g g' fuel rc b'       (* (C) *)
          | Some rw, None => trivia_rule_ok g g' fuel rw b'       (* (W) *)
          | _, _ => false
          end
      | None => false
      end
  end.

Definition sup_ctx (c : ctx) : ctx :=
  {| c_atom := c_atom c; c_rule := c_rule c; c_neg := c_neg c; c_sup := true |}.

(* ------------------------------------------------------------------------------------ *)
(* 2. calling a silent rule without a tag is running its body in the rule's context      *)
(* ------------------------------------------------------------------------------------ *)

Lemma silent_call g f c n r s : lookup g n = Some r -> r_silent r = true ->
  run g (S f) c (TEval (ERef n None)) s = run g f (rule_ctx c r) (TEval (r_body r)) s.
Proof.
  intros L S1. cbn [run]. rewrite L. cbn [push_tag].
  destruct (run g f (rule_ctx c r) (TEval (r_body r)) s); try reflexivity.
  unfold finish_rule. rewrite S1. reflexivity.
Qed.

Lemma silent_call_evals g c n r s x : lookup g n = Some r -> r_silent r = true ->
  (evals g c (ERef n None) s x <-> evals g (rule_ctx c r) (r_body r) s x).
Proof.
  intros L S1. split; intros [f [H D]].
  - destruct f as [|f]; [cbn in H; congruence|].
    rewrite (silent_call g f c n r s L S1) in H. exists f. split; assumption.
  - exists (S f). rewrite (silent_call g f c n r s L S1). split; assumption.
Qed.

(* ------------------------------------------------------------------------------------ *)
(* 3. star congruence over two grammars, two iterated expressions and two contexts in    *)
(*    which implicit trivia is off                                                       *)
(* ------------------------------------------------------------------------------------ *)

Section StarCong.
Variables ga gb : grammar.
Variables ea eb : expr.
Variables ca cb : ctx.
Hypothesis Hca : c_atom ca <> NonAtomic.
Hypothesis Hcb : c_atom cb <> NonAtomic.
Hypothesis Hit : forall s s' x, same_core s s' -> evals ga ca ea s x ->
  exists x', evals gb cb eb s' x' /\ req x' x.

Lemma skips_id_b s : skips gb cb s (Ok s []).
Proof. exists 0. split; [apply atomic_no_trivia; exact Hcb|discriminate]. Qed.

Lemma tstar_cong : forall f s s' r, same_core s s' -> run ga f ca (TStar ea) s = r -> r <> Fuel ->
  exists r', runs gb cb (TStar eb) s' r' /\ req r' r.
Proof.
  induction f as [|f IH]; intros s s' r Hs H D; [cbn in H; congruence|].
  cbn [run] in H. rewrite (atomic_no_trivia ga _ ca s Hca) in H.
  destruct (run ga f ca (TEval ea) s) as [s3 p3|t| |] eqn:E1.
  - assert (Hx : evals ga ca ea s (Ok s3 p3)) by (exists f; split; [exact E1|discriminate]).
    destruct (Hit s s' _ Hs Hx) as [x' [Hx' Rx]].
    destruct (req_ok_inv _ _ _ Rx) as [s3' [-> Rs3]].
    assert (DZ : run ga f ca (TStar ea) s3 <> Fuel).
    { intros X. rewrite X in H. congruence. }
    destruct (IH s3 s3' _ (same_core_sym _ _ Rs3) eq_refl DZ) as [z' [Hz' Rz]].
    exists (addp [] (addp p3 z')). split.
    + apply runs_star. exists (Ok s' []). split; [apply skips_id_b|].
      exists (Ok s3' p3). split; [exact Hx'|]. exists z'. split; [exact Hz'|reflexivity].
    + subst r. destruct (run ga f ca (TStar ea) s3) as [s4 p4|t| |].
      * apply (req_addp [] _ (addp p3 (Ok s4 p4))). apply (req_addp p3 _ (Ok s4 p4)). exact Rz.
      * apply (req_addp [] _ (addp p3 (Fail t))). apply (req_addp p3 _ (Fail t)). exact Rz.
      * apply (req_addp [] _ (addp p3 Err)). apply (req_addp p3 _ Err). exact Rz.
      * congruence.
  - assert (Hx : evals ga ca ea s (Fail t)) by (exists f; split; [exact E1|discriminate]).
    destruct (Hit s s' _ Hs Hx) as [x' [Hx' Rx]].
    destruct (req_fail_inv _ _ Rx) as [t' ->].
    exists (Ok (set_trk s' t') []). split.
    + apply runs_star. exists (Ok s' []). split; [apply skips_id_b|].
      exists (Fail t'). split; [exact Hx'|reflexivity].
    + subst r. split; [apply same_core_set_trk; apply same_core_sym; exact Hs|reflexivity].
  - assert (Hx : evals ga ca ea s Err) by (exists f; split; [exact E1|discriminate]).
    destruct (Hit s s' _ Hs Hx) as [x' [Hx' Rx]].
    apply req_err_inv in Rx. subst x'.
    exists Err. split; [|subst r; exact I].
    apply runs_star. exists (Ok s' []). split; [apply skips_id_b|].
    exists Err. split; [exact Hx'|reflexivity].
  - congruence.
Qed.

Lemma star_cong s s' r : same_core s s' -> evals ga ca (EStar ea) s r ->
  exists r', evals gb cb (EStar eb) s' r' /\ req r' r.
Proof.
  intros Hs Hev. apply evals_star in Hev. destruct Hev as [x [Hx K]].
  destruct (Hit s s' x Hs Hx) as [x' [Hx' Rx]].
  destruct x as [s1 p1|t| |].
  - destruct (req_ok_inv _ _ _ Rx) as [s1' [-> Rs1]].
    destruct K as [z [[fz [Ez Dz]] ->]].
    destruct (tstar_cong fz s1 s1' z (same_core_sym _ _ Rs1) Ez Dz) as [z' [Hz' Rz]].
    exists (addp p1 z'). split; [|apply req_addp; exact Rz].
    apply evals_star. exists (Ok s1' p1). split; [exact Hx'|].
    exists z'. split; [exact Hz'|reflexivity].
  - subst r. destruct (req_fail_inv _ _ Rx) as [t' ->].
    exists (Ok (set_trk s' t') []). split.
    + apply evals_star. exists (Fail t'). split; [exact Hx'|reflexivity].
    + split; [apply same_core_set_trk; apply same_core_sym; exact Hs|reflexivity].
  - subst r. apply req_err_inv in Rx. subst x'. exists Err. split; [|exact I].
    apply evals_star. exists Err. split; [exact Hx'|reflexivity].
  - exfalso. eapply runs_nofuel; [exact Hx|reflexivity].
Qed.

End StarCong.

(* ------------------------------------------------------------------------------------ *)
(* 4. the fused rule against the implicit skipping of the original grammar               *)
(* ------------------------------------------------------------------------------------ *)

Section Skip.
Variables g g' : grammar.
Variable fuel : nat.
Hypothesis HG : ochk_grammar g g' fuel = true.

(* OptProof's two-directional simulation, fuel-free, for bodies matched atomically *)
Lemma body_fwd fo e e' : ochk g g' fo true e e' = true ->
  forall c c' s s' r, c_atom c = Atomic -> c_atom c' = Atomic -> same_core s s' ->
    evals g c e s r -> exists r', evals g' c' e' s' r' /\ req r' r.
Proof.
  intros Hc c c' s s' r A A' Hs [f [H D]].
  destruct (FW_all g g' fuel HG f fo true e e' Hc) as [F _].
  unfold evals.
  apply (rsim_core g g' f true (TEval e) (TEval e') F f c c' s s' r (le_n _)).
  - intros _. left. rewrite A. discriminate.
  - congruence.
  - exact Hs.
  - exact H.
  - exact D.
Qed.

Lemma body_bwd fo e e' : ochk g g' fo true e e' = true ->
  forall c c' s s' r, c_atom c = Atomic -> c_atom c' = Atomic -> same_core s s' ->
    evals g' c e' s r -> exists r', evals g c' e s' r' /\ req r' r.
Proof.
  intros Hc c c' s s' r A A' Hs [f [H D]].
  destruct (FW_all g g' fuel HG f fo true e e' Hc) as [_ F].
  unfold evals.
  apply (rsim_core g' g f true (TEval e') (TEval e) F f c c' s s' r (le_n _)).
  - intros _. left. rewrite A. discriminate.
  - congruence.
  - exact Hs.
  - exact H.
  - exact D.
Qed.

Section OneTrivia.
Variable n : N.                      (* WS_ID or CM_ID: the only trivia rule of g *)
Variables rt r' : rule.
Variable b' : expr.
Variable fo : nat.
Hypothesis Hn : is_trivia_name n = true.
Hypothesis Hse : skip_expr g = Some (EStar (ERef n None)).
Hypothesis Lt : lookup g n = Some rt.
Hypothesis St : r_silent rt = true.
Hypothesis Kt : r_kind rt = KNormal.
Hypothesis Lk : lookup g' SKIP_ID = Some r'.
Hypothesis Ss : r_silent r' = true.
Hypothesis Ks : r_kind r' = KAtomic.
Hypothesis Bs : r_body r' = EStar b'.
Hypothesis Hb : ochk g g' fo true (r_body rt) b' = true.
Variable c : ctx.
Hypothesis Hc : c_atom c = NonAtomic.

Notation cK := (skip_ctx c).                       (* where pest runs `skip` *)
Notation cA := (rule_ctx (sup_ctx c) r').          (* where the body of SKIP runs *)

Lemma cK_atom : c_atom cK <> NonAtomic.
Proof. cbn. discriminate. Qed.

Lemma cA_atomic : c_atom cA = Atomic.
Proof. unfold rule_ctx, body_atom. cbn [c_atom]. rewrite Ks. reflexivity. Qed.

Lemma cA_atom : c_atom cA <> NonAtomic.
Proof. rewrite cA_atomic. discriminate. Qed.

(* the body of WHITESPACE / COMMENT runs in an Atomic context because of its name *)
Lemma body_ctx_atomic c0 : c_atom (rule_ctx c0 rt) = Atomic.
Proof.
  unfold rule_ctx, body_atom. cbn [c_atom].
  rewrite Kt, (lookup_name' _ _ _ Lt), Hn. reflexivity.
Qed.

Lemma skips_is_star s r : skips g c s r <-> evals g cK (EStar (ERef n None)) s r.
Proof.
  split; intros [f [H D]]; exists f; (split; [|exact D]);
    unfold skip_with in *; rewrite Hc, Hse in *; exact H.
Qed.

Lemma it_fwd : forall s s' x, same_core s s' -> evals g cK (ERef n None) s x ->
  exists x', evals g' cA b' s' x' /\ req x' x.
Proof.
  intros s s' x Hs H. apply (silent_call_evals g cK n rt s x Lt St) in H.
  apply (body_fwd fo (r_body rt) b' Hb (rule_ctx cK rt) cA s s' x);
    [apply body_ctx_atomic|apply cA_atomic|exact Hs|exact H].
Qed.

Lemma it_bwd : forall s s' x, same_core s s' -> evals g' cA b' s x ->
  exists x', evals g cK (ERef n None) s' x' /\ req x' x.
Proof.
  intros s s' x Hs H.
  destruct (body_bwd fo (r_body rt) b' Hb cA (rule_ctx cK rt) s s' x
              cA_atomic (body_ctx_atomic cK) Hs H) as [x' [H1 R]].
  exists x'. split; [|exact R].
  apply (silent_call_evals g cK n rt s' x' Lt St). exact H1.
Qed.

Lemma one_trivia s :
  (forall r, skips g c s r ->
     exists r1, evals g' (sup_ctx c) (ERef SKIP_ID None) s r1 /\ req r1 r) /\
  (forall r1, evals g' (sup_ctx c) (ERef SKIP_ID None) s r1 ->
     exists r, skips g c s r /\ req r r1).
Proof.
  split.
  - intros r Hr. apply skips_is_star in Hr.
    destruct (star_cong g g' (ERef n None) b' cK cA cK_atom cA_atom it_fwd s s r
                (same_core_refl _) Hr) as [r1 [H1 R1]].
    exists r1. split; [|exact R1].
    apply (silent_call_evals g' (sup_ctx c) SKIP_ID r' s r1 Lk Ss). rewrite Bs. exact H1.
  - intros r1 H1.
    apply (silent_call_evals g' (sup_ctx c) SKIP_ID r' s r1 Lk Ss) in H1. rewrite Bs in H1.
    destruct (star_cong g' g b' (ERef n None) cA cK cA_atom cK_atom it_bwd s s r1
                (same_core_refl _) H1) as [r [Hr R]].
    exists r. split; [apply skips_is_star; exact Hr|exact R].
Qed.

End OneTrivia.
End Skip.

Lemma trivia_rule_ok_inv g g' fuel rt b' : trivia_rule_ok g g' fuel rt b' = true ->
  r_silent rt = true /\ r_kind rt = KNormal /\ ochk g g' fuel true (r_body rt) b' = true.
Proof.
  unfold trivia_rule_ok. intros H. apply andb_prop in H. destruct H as [H H3].
  apply andb_prop in H. destruct H as [H1 H2]. apply kind_eqb_eq in H2.
  repeat split; assumption.
Qed.

Theorem skip_rule_sound : forall g g' fuel, ochk_grammar g g' fuel = true -> ochk_skip g g' fuel = true ->
  defined_in g' SKIP_ID = true ->
  forall c s, c_atom c = NonAtomic ->
    (forall r, skips g c s r -> exists r', evals g' (sup_ctx c) (ERef SKIP_ID None) s r' /\ req r' r) /\
    (forall r', evals g' (sup_ctx c) (ERef SKIP_ID None) s r' -> exists r, skips g c s r /\ req r r').
Proof.
  intros g g' fuel HG HS HD c s Hc.
  unfold ochk_skip in HS. unfold defined_in in HD.
  destruct (lookup g' SKIP_ID) as [r'|] eqn:Lk; [|discriminate].
  apply andb_prop in HS. destruct HS as [HS HB].
  apply andb_prop in HS. destruct HS as [Ss Ks]. apply kind_eqb_eq in Ks.
  destruct (star_body (r_body r')) as [b'|] eqn:Bs; [|discriminate].
  apply star_body_inv in Bs.
  destruct (lookup g WS_ID) as [rw|] eqn:LW; destruct (lookup g CM_ID) as [rc|] eqn:LC;
    try discriminate.
  - (* (W) *)
    destruct (trivia_rule_ok_inv _ _ _ _ _ HB) as [St [Kt Hb]].
    apply (one_trivia g g' fuel HG WS_ID rw r' b' fuel); try assumption; try reflexivity.
    unfold skip_expr, has_ws, has_cm. rewrite LW, LC. reflexivity.
  - (* (C) *)
    destruct (trivia_rule_ok_inv _ _ _ _ _ HB) as [St [Kt Hb]].
    apply (one_trivia g g' fuel HG CM_ID rc r' b' fuel); try assumption; try reflexivity.
    unfold skip_expr, has_ws, has_cm. rewrite LW, LC. reflexivity.
Qed.

(* ------------------------------------------------------------------------------------ *)
(* 5. the two shapes are accepted (grammars t1 (W) and t2 (C) of OptTests.v), a SKIP     *)
(*    rule that iterates something else is rejected                                      *)
(* ------------------------------------------------------------------------------------ *)

Section Examples.
Local Open Scope N_scope.
Let Rl n sil k b := {| r_name := n; r_silent := sil; r_kind := k; r_body := b |}.

Let g1 : grammar :=
  [Rl 0 true KNormal (EAlt [EStr [32]; EStr [9]]);
   Rl 4 false KNormal (ESeq [EPlus (EGrp (EAlt [ERange 122 97; EStr [120]; ERange 51 52; ERange 98 98]) None); EOpt (EStr [33])])].
Let g1' : grammar :=
  [Rl 2 true KAtomic (EStar (EAlt [ECls [(9,9);(32,32)]])); Rl 0 true KNormal (EAlt [ECls [(9,9);(32,32)]]);
   Rl 4 false KNormal (ESeq [ESeq [EAlt [ECls [(51,52);(98,98);(120,120)]]; EStar (EGrp (EAlt [ECls [(51,52);(98,98);(120,120)]]) None)]; EOpt (EStr [33])])].

Let g2 : grammar :=
  [Rl 1 true KNormal (ESeq [EStr [35]; EStar (EGrp (ESeq [ENot (EStr [35]); ERef 4 None]) None); EStr [35]]);
   Rl 4 true KNormal EAny; Rl 5 false KNormal (EStr [97])].
Let g2' : grammar :=
  [Rl 5 false KNormal (EStr [97]); Rl 4 true KNormal EAny;
   Rl 2 true KAtomic (EStar (ESeq [EStr [35]; ESkipUntil [[35]]; EStr [35]]));
   Rl 1 true KNormal (ESeq [EStr [35]; ESkipUntil [[35]]; EStr [35]])].

(* (W) *)
Example s1 : ochk_grammar g1 g1' 200%nat = true /\ ochk_skip g1 g1' 200%nat = true.
Proof. vm_compute. split; reflexivity. Qed.

(* (C) *)
Example s2 : ochk_grammar g2 g2' 200%nat = true /\ ochk_skip g2 g2' 200%nat = true.
Proof. vm_compute. split; reflexivity. Qed.

(* no SKIP rule: nothing to check *)
Example s3 : ochk_skip g1 (tl g1') 200%nat = true.
Proof. vm_compute. reflexivity. Qed.

(* SKIP iterates something else than the squashed WHITESPACE: the tab is lost *)
Example sn1 :
  ochk_skip g1 (Rl 2 true KAtomic (EStar (EAlt [ECls [(32,32)]])) :: tl g1') 200%nat = false.
Proof. vm_compute. reflexivity. Qed.

(* SKIP iterates something else than COMMENT: the closing delimiter is missing *)
Example sn2 :
  ochk_skip g2 [Rl 5 false KNormal (EStr [97]); Rl 4 true KNormal EAny;
                Rl 2 true KAtomic (EStar (ESeq [EStr [35]; ESkipUntil [[35]]]));
                Rl 1 true KNormal (ESeq [EStr [35]; ESkipUntil [[35]]; EStr [35]])] 200%nat = false.
Proof. vm_compute. reflexivity. Qed.

(* SKIP is not a star / not atomic / not silent *)
Example sn3 :
  ochk_skip g1 (Rl 2 true KAtomic (EAlt [ECls [(9,9);(32,32)]]) :: tl g1') 200%nat = false.
Proof. vm_compute. reflexivity. Qed.
Example sn4 :
  ochk_skip g1 (Rl 2 true KNormal (EStar (EAlt [ECls [(9,9);(32,32)]])) :: tl g1') 200%nat = false.
Proof. vm_compute. reflexivity. Qed.
Example sn5 :
  ochk_skip g1 (Rl 2 false KAtomic (EStar (EAlt [ECls [(9,9);(32,32)]])) :: tl g1') 200%nat = false.
Proof. vm_compute. reflexivity. Qed.

(* both trivia rules defined in g: no SKIP rule may exist *)
Example sn6 :
  ochk_skip (Rl 1 true KNormal (EStr [35]) :: g1) g1' 200%nat = false.
Proof. vm_compute. reflexivity. Qed.

End Examples.

Print Assumptions skip_rule_sound.
