(* Pratt.v — model of PrattParser.parse_expr (src/pest/pratt.py) over a stream of operand and
   operator tokens, with the parse_* hooks building trees. *)
From Coq Require Import List Arith Bool Lia.
Import ListNotations.

Inductive tok := KPrim (a : nat) | KPre (o : nat) | KPost (o : nat) | KInf (o : nat).

Inductive tree :=
| TPrim (a : nat)
| TPre (o : nat) (r : tree)
| TPost (l : tree) (o : nat)
| TIn (l : tree) (o : nat) (r : tree).

(* operator tables: PREFIX_OPS, POSTFIX_OPS, INFIX_OPS (precedence, right-associative) *)
Record table := { pre : nat -> nat; post : nat -> nat; inf : nat -> nat * bool }.

Definition rprec (tb : table) (o : nat) : nat :=
  let '(p, ra) := inf tb o in if ra then p else p + 1.

Section P.
Variable tb : table.

(* parse_expr (prefix/primary part) and its operator loop, as one function on explicit fuel *)
Inductive ptask := PExpr (ts : list tok) (m : nat) | PLoop (lhs : tree) (ts : list tok) (m : nat).

Fixpoint prun (fuel : nat) (t : ptask) {struct fuel} : option (tree * list tok) :=
  match fuel with
  | 0 => None
  | S f =>
    match t with
    | PExpr ts m =>
      match ts with
      | KPrim a :: ts' => prun f (PLoop (TPrim a) ts' m)
      | KPre o :: ts' =>
          match prun f (PExpr ts' (pre tb o)) with
          | Some (rhs, rest) => prun f (PLoop (TPre o rhs) rest m)
          | None => None
          end
      | _ => None          (* SyntaxError: end of stream, or an operator where an operand must be *)
      end
    | PLoop lhs ts m =>
      match ts with
      | KPost o :: ts' =>
          if post tb o <? m then Some (lhs, ts) else prun f (PLoop (TPost lhs o) ts' m)
      | KInf o :: ts' =>
          if fst (inf tb o) <? m then Some (lhs, ts)
          else
            match prun f (PExpr ts' (rprec tb o)) with
            | Some (rhs, rest) => prun f (PLoop (TIn lhs o rhs) rest m)
            | None => None
            end
      | _ => Some (lhs, ts)
      end
    end
  end.

Definition parse_expr (fuel : nat) (ts : list tok) (m : nat) := prun fuel (PExpr ts m).
Definition loop (fuel : nat) (lhs : tree) (ts : list tok) (m : nat) := prun fuel (PLoop lhs ts m).

Definition parse (ts : list tok) : option (tree * list tok) := parse_expr (2 * length ts + 2) ts 0.

(* in-order yield of a tree *)
Fixpoint yield (t : tree) : list tok :=
  match t with
  | TPrim a => [KPrim a]
  | TPre o r => KPre o :: yield r
  | TPost l o => yield l ++ [KPost o]
  | TIn l o r => yield l ++ KInf o :: yield r
  end.

(* the least absorb threshold on the right spine (None = closed) *)
Fixpoint rthresh (t : tree) : option nat :=
  match t with
  | TPrim _ => None
  | TPost _ _ => None
  | TPre o r => Some (match rthresh r with Some x => Nat.min (pre tb o) x | None => pre tb o end)
  | TIn _ o r => Some (match rthresh r with Some x => Nat.min (rprec tb o) x | None => rprec tb o end)
  end.

Definition below (q : nat) (th : option nat) : Prop :=
  match th with Some x => q < x | None => True end.

(* the trees a call at level m can build: every operator accumulated by the loop has
   precedence >= m and is not swallowed by the operand to its left *)
Inductive canon : nat -> tree -> Prop :=
| CPrim m a : canon m (TPrim a)
| CPre m o r : canon (pre tb o) r -> canon m (TPre o r)
| CPost m l o : canon m l -> m <= post tb o -> below (post tb o) (rthresh l) -> canon m (TPost l o)
| CIn m l o r : canon m l -> m <= fst (inf tb o) -> below (fst (inf tb o)) (rthresh l) ->
    canon (rprec tb o) r -> canon m (TIn l o r).

End P.
