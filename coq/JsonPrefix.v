From Coq Require Import List NArith ZArith Bool Arith Lia.
Import ListNotations.
From PP Require Import Base Syntax Spec SpecMono SpecLaws SpecEquiv SpecWf Grammars JsonComplete.

(* JsonPrefix.v — REJECTION OF PROPER PREFIXES by examples/json/json.pest (json_grammar):
   a JSON document (top level array or object) written without trailing whitespace is not
   accepted when it is cut short.

   Route: a string-aware bracket scanner over texts (mode: outside a string / inside a string /
   after a backslash inside a string; depth: number of open brackets, an integer so that the scan
   is a monoid morphism and no error state is needed).
     Part 1  the scanner; every proper non-empty prefix of the rendering of a top-level value
             ends inside a string or with an unclosed bracket.
     Part 2  combinators: "whatever task t consumes satisfies P", indexed by a fuel bound.
     Part 3  soundness of json.pest w.r.t. the scanner: whatever value / object / array / pair /
             string / number / boolean / null consume is balanced.
     Part 4  an accepted text is balanced and not blank; the theorem.
     Part 5  a concrete document, all of whose proper prefixes are rejected by running `parse`. *)

Open Scope N_scope.

Definition proper_prefix (p t : text) : Prop := exists q, q <> [] /\ t = p ++ q.

(* ==================================================================================== *)
(* Part 1. The scanner                                                                   *)
(* ==================================================================================== *)

Inductive mode := MOut | MStr | MEsc.

Definition opens (c : N) : bool := (c =? 91) || (c =? 123).
Definition closes (c : N) : bool := (c =? 93) || (c =? 125).

(* next mode *)
Definition nm (m : mode) (c : N) : mode :=
  match m with
  | MOut => if c =? 34 then MStr else MOut
  | MStr => if c =? 34 then MOut else if c =? 92 then MEsc else MStr
  | MEsc => MStr
  end.

(* change of the bracket depth *)
Definition dl (m : mode) (c : N) : Z :=
  match m with
  | MOut => if opens c then 1%Z else if closes c then (-1)%Z else 0%Z
  | _ => 0%Z
  end.

Fixpoint endm (t : text) (m : mode) : mode :=
  match t with [] => m | c :: t' => endm t' (nm m c) end.

Fixpoint depth (t : text) (m : mode) : Z :=
  match t with [] => 0%Z | c :: t' => (dl m c + depth t' (nm m c))%Z end.

Lemma endm_app a : forall b m, endm (a ++ b) m = endm b (endm a m).
Proof. induction a as [|c a IH]; intros b m; cbn [app endm]; [reflexivity|apply IH]. Qed.

Lemma depth_app a : forall b m, depth (a ++ b) m = (depth a m + depth b (endm a m))%Z.
Proof.
  induction a as [|c a IH]; intros b m; cbn [app endm depth]; [reflexivity|].
  rewrite IH. lia.
Qed.

(* scanning x from mode m ends in mode m' and changes the depth by k *)
Definition tr (m : mode) (k : Z) (m' : mode) (x : text) : Prop := endm x m = m' /\ depth x m = k.

Lemma tr_nil m : tr m 0 m [].
Proof. split; reflexivity. Qed.

Lemma tr_app m1 k1 m2 k2 m3 a b : tr m1 k1 m2 a -> tr m2 k2 m3 b -> tr m1 (k1 + k2) m3 (a ++ b).
Proof.
  intros [A1 A2] [B1 B2]. split.
  - rewrite endm_app, A1. exact B1.
  - rewrite depth_app, A1, A2, B2. reflexivity.
Qed.

Definition bal (x : text) : Prop := tr MOut 0 MOut x.   (* balanced, seen from outside a string *)
Definition inn (x : text) : Prop := tr MStr 0 MStr x.   (* stays inside the string *)

Lemma bal_nil : bal []. Proof. apply tr_nil. Qed.
Lemma bal_app a b : bal a -> bal b -> bal (a ++ b).
Proof. intros A B. exact (tr_app _ _ _ _ _ _ _ A B). Qed.
Lemma inn_nil : inn []. Proof. apply tr_nil. Qed.
Lemma inn_app a b : inn a -> inn b -> inn (a ++ b).
Proof. intros A B. exact (tr_app _ _ _ _ _ _ _ A B). Qed.

(* characters that are neutral outside / inside a string *)
Definition plainO (c : N) : bool := negb (c =? 34) && negb (opens c) && negb (closes c).
Definition plainI (c : N) : bool := negb (c =? 34) && negb (c =? 92).
Definition pls (x : text) : Prop := forallb plainO x = true.
Definition pli (x : text) : Prop := forallb plainI x = true.

Lemma pls_nil : pls []. Proof. reflexivity. Qed.
Lemma pls_app a b : pls a -> pls b -> pls (a ++ b).
Proof. unfold pls. intros A B. rewrite forallb_app, A, B. reflexivity. Qed.
Lemma pli_nil : pli []. Proof. reflexivity. Qed.
Lemma pli_app a b : pli a -> pli b -> pli (a ++ b).
Proof. unfold pli. intros A B. rewrite forallb_app, A, B. reflexivity. Qed.

Lemma plainO_nm c : plainO c = true -> nm MOut c = MOut /\ dl MOut c = 0%Z.
Proof.
  unfold plainO, nm, dl. destruct (c =? 34); destruct (opens c); destruct (closes c); cbn;
    intros H; try discriminate H; split; reflexivity.
Qed.

Lemma plainI_nm c : plainI c = true -> nm MStr c = MStr.
Proof.
  unfold plainI, nm. destruct (c =? 34); destruct (c =? 92); cbn; intros H; try discriminate H; reflexivity.
Qed.

Lemma pls_bal x : pls x -> bal x.
Proof.
  unfold pls, bal, tr. induction x as [|c x IH]; cbn [forallb endm depth]; intros H; [split; reflexivity|].
  apply andb_prop in H. destruct H as [Hc Hx]. destruct (plainO_nm c Hc) as [E1 E2].
  rewrite E1, E2. destruct (IH Hx) as [A B]. split; [exact A|rewrite B; reflexivity].
Qed.

Lemma pli_inn x : pli x -> inn x.
Proof.
  unfold pli, inn, tr. induction x as [|c x IH]; cbn [forallb endm depth dl]; intros H; [split; reflexivity|].
  apply andb_prop in H. destruct H as [Hc Hx]. rewrite (plainI_nm c Hc).
  destruct (IH Hx) as [A B]. split; [exact A|rewrite B; reflexivity].
Qed.

Lemma ws_plainO c : is_ws c = true -> plainO c = true.
Proof. intros H. destruct (is_ws_cases c H) as [->|[->|[->| ->]]]; reflexivity. Qed.

Lemma ws_pls w : ws w -> pls w.
Proof.
  unfold ws, pls. induction w as [|c w IH]; cbn [forallb]; intros H; [reflexivity|].
  apply andb_prop in H. destruct H as [Hc Hw]. rewrite (ws_plainO c Hc), (IH Hw). reflexivity.
Qed.

Lemma ws_bal w : ws w -> bal w.
Proof. intros H. apply pls_bal, ws_pls, H. Qed.

Lemma ws_app a b : ws a -> ws b -> ws (a ++ b).
Proof. unfold ws. intros A B. rewrite forallb_app, A, B. reflexivity. Qed.

Lemma ws_app_l a b : ws (a ++ b) -> ws a.
Proof. unfold ws. rewrite forallb_app. intros H. apply andb_prop in H. tauto. Qed.

(* boolean facts about code points, by arithmetic *)
Ltac nbool :=
  unfold plainO, plainI, opens, closes, is_hex, is_nzdigit in *; unfold is_digit in *;
  repeat rewrite ?andb_true_iff, ?orb_true_iff, ?negb_true_iff, ?orb_false_iff, ?andb_false_iff,
    ?N.leb_le, ?N.eqb_eq, ?N.eqb_neq in *;
  lia.

Lemma range_plainO lo hi d : 35 <= lo -> hi <= 90 -> (N.leb lo d && N.leb d hi)%bool = true -> plainO d = true.
Proof. intros A B H. nbool. Qed.

Lemma digit_plainO d : is_digit d = true -> plainO d = true.
Proof. intros H. nbool. Qed.

Lemma nzdigit_plainO d : is_nzdigit d = true -> plainO d = true.
Proof. intros H. nbool. Qed.

Lemma hex_plainI d : is_hex d = true -> plainI d = true.
Proof. intros H. nbool. Qed.

Lemma range_plainI lo hi d : (35 <= lo /\ hi <= 91) \/ 93 <= lo ->
  (N.leb lo d && N.leb d hi)%bool = true -> plainI d = true.
Proof. intros A H. nbool. Qed.

(* ---- a property of every state met while scanning ---- *)
Fixpoint allpre (P : mode -> Z -> Prop) (t : text) (m : mode) (d : Z) : Prop :=
  P m d /\ match t with [] => True | c :: t' => allpre P t' (nm m c) (d + dl m c)%Z end.

Lemma allpre_hd P t m d : allpre P t m d -> P m d.
Proof. destruct t; cbn [allpre]; tauto. Qed.

Lemma allpre_app P a : forall b m d,
  allpre P (a ++ b) m d <-> allpre P a m d /\ allpre P b (endm a m) (d + depth a m)%Z.
Proof.
  induction a as [|c a IH]; intros b m d; cbn [app allpre endm depth].
  - rewrite Z.add_0_r. split.
    + intros H. split; [split; [exact (allpre_hd _ _ _ _ H)|exact I]|exact H].
    + tauto.
  - rewrite IH. rewrite Z.add_assoc. tauto.
Qed.

Lemma allpre_mono (P Q : mode -> Z -> Prop) : (forall m d, P m d -> Q m d) ->
  forall t m d, allpre P t m d -> allpre Q t m d.
Proof.
  intros H. induction t as [|c t IH]; intros m d; cbn [allpre].
  - intros [A _]. split; [apply H; exact A|exact I].
  - intros [A B]. split; [apply H; exact A|apply IH; exact B].
Qed.

(* inside a string, or at least k brackets are open *)
Definition lo (k : Z) (m : mode) (d : Z) : Prop := m <> MOut \/ (k <= d)%Z.

(* balanced, and no prefix closes a bracket that was open before *)
Definition okt (x : text) : Prop := bal x /\ forall d, allpre (lo d) x MOut d.

Lemma okt_nil : okt [].
Proof. split; [exact bal_nil|]. intros d. cbn. split; [right; lia|exact I]. Qed.

Lemma okt_app a b : okt a -> okt b -> okt (a ++ b).
Proof.
  intros [Ba Pa] [Bb Pb]. split; [apply bal_app; assumption|].
  intros d. apply allpre_app. split; [apply Pa|].
  destruct Ba as [E1 E2]. rewrite E1, E2, Z.add_0_r. apply Pb.
Qed.

Lemma pls_okt x : pls x -> okt x.
Proof.
  intros H. split; [apply pls_bal; exact H|].
  unfold pls in H. induction x as [|c x IH]; intros d; cbn [allpre]; (split; [right; lia|]); [exact I|].
  cbn [forallb] in H. apply andb_prop in H. destruct H as [Hc Hx].
  destruct (plainO_nm c Hc) as [E1 E2]. rewrite E1, E2, Z.add_0_r. apply IH. exact Hx.
Qed.

Lemma ws_okt w : ws w -> okt w.
Proof. intros H. apply pls_okt, ws_pls, H. Qed.

(* an opening bracket, a good text, the closing bracket *)
Lemma okt_brk o cl y : (o = 91 /\ cl = 93) \/ (o = 123 /\ cl = 125) -> okt y -> okt (o :: y ++ [cl]).
Proof.
  intros Hoc [[E1 E2] Py].
  assert (Ho : nm MOut o = MOut /\ dl MOut o = 1%Z) by (destruct Hoc as [[-> _]|[-> _]]; split; reflexivity).
  assert (Hc : nm MOut cl = MOut /\ dl MOut cl = (-1)%Z) by (destruct Hoc as [[_ ->]|[_ ->]]; split; reflexivity).
  destruct Ho as [Ho1 Ho2]. destruct Hc as [Hc1 Hc2].
  split.
  - split.
    + cbn [endm]. rewrite Ho1, endm_app, E1. cbn [endm]. exact Hc1.
    + cbn [depth]. rewrite Ho1, Ho2, depth_app, E1, E2. cbn [depth]. rewrite Hc2. reflexivity.
  - intros d. cbn [allpre]. split; [right; lia|]. rewrite Ho1, Ho2.
    apply allpre_app. split.
    + eapply allpre_mono; [|apply (Py (d + 1)%Z)]. intros m d' [A|A]; [left; exact A|right; lia].
    + rewrite E1, E2. cbn [allpre]. split; [right; lia|]. split; [right; rewrite Hc2; lia|exact I].
Qed.

(* ---- strings ---- *)
Fixpoint instr (t : text) (m : mode) : Prop :=
  m <> MOut /\ match t with [] => True | c :: t' => instr t' (nm m c) end.

Lemma instr_app a : forall b m, instr a m -> instr b (endm a m) -> instr (a ++ b) m.
Proof.
  induction a as [|c a IH]; intros b m; cbn [app instr endm]; [tauto|].
  intros [A B] C. split; [exact A|apply IH; assumption].
Qed.

Lemma instr_depth t : forall m, instr t m -> depth t m = 0%Z.
Proof.
  induction t as [|c t IH]; intros m; cbn [instr depth]; [reflexivity|].
  intros [A B]. rewrite (IH _ B). destruct m; [contradiction| |]; reflexivity.
Qed.

Lemma instr_allpre k t : forall m d, instr t m -> allpre (lo k) t m d.
Proof.
  induction t as [|c t IH]; intros m d; cbn [instr allpre].
  - intros [A _]. split; [left; exact A|exact I].
  - intros [A B]. split; [left; exact A|].
    replace (d + dl m c)%Z with d by (destruct m; [contradiction| |]; cbn [dl]; lia).
    apply IH. exact B.
Qed.

Lemma jchar_instr j : wf_jchar j = true ->
  instr (jchar_text j) MStr /\ endm (jchar_text j) MStr = MStr.
Proof.
  destruct j as [c|c|h1 h2 h3 h4]; cbn [wf_jchar jchar_text]; intros H.
  - assert (E : nm MStr c = MStr) by (apply plainI_nm; exact H).
    cbn [instr endm]. rewrite E. repeat split; discriminate.
  - cbn. repeat split; discriminate.
  - apply andb_prop in H. destruct H as [H H4]. apply andb_prop in H. destruct H as [H H3].
    apply andb_prop in H. destruct H as [H1 H2].
    apply hex_plainI, plainI_nm in H1. apply hex_plainI, plainI_nm in H2.
    apply hex_plainI, plainI_nm in H3. apply hex_plainI, plainI_nm in H4.
    cbn [instr endm]. change (nm MStr 92) with MEsc. change (nm MEsc 117) with MStr.
    rewrite H1, H2, H3, H4. repeat split; discriminate.
Qed.

Lemma chars_instr s : forallb wf_jchar s = true ->
  instr (chars_text s) MStr /\ endm (chars_text s) MStr = MStr.
Proof.
  induction s as [|j s IH]; cbn [forallb chars_text]; intros H.
  - cbn. repeat split. discriminate.
  - apply andb_prop in H. destruct H as [Hj Hs].
    destruct (jchar_instr j Hj) as [A1 A2]. destruct (IH Hs) as [B1 B2]. split.
    + apply instr_app; [exact A1|rewrite A2; exact B1].
    + rewrite endm_app, A2. exact B2.
Qed.

Lemma str_okt s : forallb wf_jchar s = true -> okt (str_text s).
Proof.
  intros H. destruct (chars_instr s H) as [A B]. unfold str_text. split.
  - split.
    + cbn [endm]. change (nm MOut 34) with MStr. rewrite endm_app, B. reflexivity.
    + cbn [depth]. change (nm MOut 34) with MStr. rewrite depth_app, B, (instr_depth _ _ A). reflexivity.
  - intros d. cbn [allpre]. split; [right; lia|]. change (nm MOut 34) with MStr.
    apply allpre_app. split; [apply instr_allpre; exact A|].
    rewrite B, (instr_depth _ _ A). cbn. split; [left; discriminate|]. split; [right; lia|exact I].
Qed.

(* ---- numbers ---- *)
Lemma digits_pls ds : forallb is_digit ds = true -> pls ds.
Proof.
  unfold pls. induction ds as [|d ds IH]; cbn [forallb]; intros H; [reflexivity|].
  apply andb_prop in H. destruct H as [Hd Hds]. rewrite (digit_plainO d Hd), (IH Hds). reflexivity.
Qed.

Lemma wf_int_pls l : wf_int l = true -> pls l.
Proof.
  destruct l as [|d ds]; cbn [wf_int]; intros H; [discriminate H|].
  destruct (N.eqb_spec d 48) as [->|Hd].
  - destruct ds; [reflexivity|discriminate H].
  - apply andb_prop in H. destruct H as [H1 H2]. unfold pls. cbn [forallb].
    rewrite (nzdigit_plainO d H1). exact (digits_pls ds H2).
Qed.

Lemma wf_digits_pls ds : wf_digits ds = true -> pls ds.
Proof. unfold wf_digits. intros H. apply andb_prop in H. apply digits_pls. tauto. Qed.

Lemma num_pls n : wf_jnum n = true -> pls (num_text n).
Proof.
  unfold wf_jnum, num_text. intros H.
  apply andb_prop in H. destruct H as [H He]. apply andb_prop in H. destruct H as [Hi Hf].
  apply pls_app; [|apply pls_app; [|apply pls_app]].
  - unfold sign_text. destruct (neg n); reflexivity.
  - apply wf_int_pls. exact Hi.
  - unfold frac_text. destruct (frac n) as [ds|]; [|reflexivity].
    apply (pls_app [46] ds); [reflexivity|apply wf_digits_pls; exact Hf].
  - unfold expo_text. destruct (expo n) as [[[e sg] ds]|]; [|reflexivity].
    apply andb_prop in He. destruct He as [He Hd]. apply andb_prop in He. destruct He as [He Hs].
    apply (pls_app [e]); [|apply pls_app].
    + unfold pls. cbn [forallb]. rewrite andb_true_r. nbool.
    + destruct sg as [sg|]; [|reflexivity]. unfold pls. cbn [forallb]. rewrite andb_true_r. nbool.
    + apply wf_digits_pls. exact Hd.
Qed.

(* ---- all renderings ---- *)
Theorem okt_all :
  (forall v x (r : renders v x), wf_jv v = true -> okt x) /\
  (forall vs tl (r : renders_tail vs tl), forallb wf_jv vs = true -> okt tl) /\
  (forall ms tl (r : renders_mtail ms tl), forallb wfm ms = true -> okt tl).
Proof.
  apply renders_all.
  - intros _. apply pls_okt. reflexivity.
  - intros b _. apply pls_okt. destruct b; reflexivity.
  - intros n Hw. cbn [wf_jv] in Hw. apply pls_okt, num_pls, Hw.
  - intros s Hw. cbn [wf_jv] in Hw. apply str_okt, Hw.
  - intros w Hw _. apply okt_brk; [tauto|apply ws_okt; exact Hw].
  - intros v vs w1 x tl wl Hw1 r IHv rt IHt Hwl Hwf.
    cbn [wf_jv forallb] in Hwf. apply andb_prop in Hwf. destruct Hwf as [Hwf1 Hwf2].
    replace (w1 ++ x ++ tl ++ wl ++ [93]) with ((w1 ++ x ++ tl ++ wl) ++ [93])
      by (rewrite <- !app_assoc; reflexivity).
    apply okt_brk; [tauto|].
    apply okt_app; [apply ws_okt; exact Hw1|]. apply okt_app; [apply IHv; exact Hwf1|].
    apply okt_app; [apply IHt; exact Hwf2|apply ws_okt; exact Hwl].
  - intros w Hw _. apply okt_brk; [tauto|apply ws_okt; exact Hw].
  - intros k v ms w1 wa wb x tl wl Hw1 Hwa Hwb r IHv rt IHt Hwl Hwf.
    cbn [wf_jv forallb fst snd] in Hwf. apply andb_prop in Hwf. destruct Hwf as [Hwf1 Hwf2].
    apply andb_prop in Hwf1. destruct Hwf1 as [Hk Hv].
    replace (w1 ++ member_text k wa wb x ++ tl ++ wl ++ [125])
      with ((w1 ++ member_text k wa wb x ++ tl ++ wl) ++ [125])
      by (rewrite <- !app_assoc; reflexivity).
    apply okt_brk; [tauto|].
    apply okt_app; [apply ws_okt; exact Hw1|]. apply okt_app.
    + unfold member_text. apply okt_app; [apply str_okt; exact Hk|].
      apply okt_app; [apply ws_okt; exact Hwa|]. apply okt_app; [apply pls_okt; reflexivity|].
      apply okt_app; [apply ws_okt; exact Hwb|apply IHv; exact Hv].
    + apply okt_app; [apply IHt; exact Hwf2|apply ws_okt; exact Hwl].
  - intros _. exact okt_nil.
  - intros v vs w2 w1 x tl Hw2 Hw1 r IHv rt IHt Hwf.
    cbn [forallb] in Hwf. apply andb_prop in Hwf. destruct Hwf as [Hwf1 Hwf2].
    apply okt_app; [apply ws_okt; exact Hw2|]. apply okt_app; [apply pls_okt; reflexivity|].
    apply okt_app; [apply ws_okt; exact Hw1|]. apply okt_app; [apply IHv; exact Hwf1|apply IHt; exact Hwf2].
  - intros _. exact okt_nil.
  - intros k v ms w2 w1 wa wb x tl Hw2 Hw1 Hwa Hwb r IHv rt IHt Hwf.
    cbn [forallb] in Hwf. apply andb_prop in Hwf. destruct Hwf as [Hwf1 Hwf2].
    unfold wfm in Hwf1. cbn [fst snd] in Hwf1. apply andb_prop in Hwf1. destruct Hwf1 as [Hk Hv].
    apply okt_app; [apply ws_okt; exact Hw2|]. apply okt_app; [apply pls_okt; reflexivity|].
    apply okt_app; [apply ws_okt; exact Hw1|]. apply okt_app; [|apply IHt; exact Hwf2].
    unfold member_text. apply okt_app; [apply str_okt; exact Hk|].
    apply okt_app; [apply ws_okt; exact Hwa|]. apply okt_app; [apply pls_okt; reflexivity|].
    apply okt_app; [apply ws_okt; exact Hwb|apply IHv; exact Hv].
Qed.

Lemma renders_okt v x : renders v x -> wf_jv v = true -> okt x.
Proof. intros r. exact (proj1 okt_all v x r). Qed.
Lemma tail_okt vs tl : renders_tail vs tl -> forallb wf_jv vs = true -> okt tl.
Proof. intros r. exact (proj1 (proj2 okt_all) vs tl r). Qed.
Lemma mtail_okt ms tl : renders_mtail ms tl -> forallb wfm ms = true -> okt tl.
Proof. intros r. exact (proj2 (proj2 okt_all) ms tl r). Qed.

(* the rendering of a top-level value: bracket, good text, matching bracket *)
Lemma top_shape v x : renders v x -> wf_jv v = true -> top_level v ->
  exists o y cl, x = o :: y ++ [cl] /\ ((o = 91 /\ cl = 93) \/ (o = 123 /\ cl = 125)) /\ okt y.
Proof.
  intros Hr Hwf Htop. destruct Hr; try contradiction.
  - exists 91, w, 93. split; [reflexivity|]. split; [tauto|apply ws_okt; assumption].
  - cbn [wf_jv forallb] in Hwf. apply andb_prop in Hwf. destruct Hwf as [Hwf1 Hwf2].
    exists 91, (w1 ++ x ++ tl ++ wl), 93. split; [rewrite <- !app_assoc; reflexivity|]. split; [tauto|].
    apply okt_app; [apply ws_okt; assumption|]. apply okt_app; [eapply renders_okt; eassumption|].
    apply okt_app; [eapply tail_okt; eassumption|apply ws_okt; assumption].
  - exists 123, w, 125. split; [reflexivity|]. split; [tauto|apply ws_okt; assumption].
  - cbn [wf_jv forallb fst snd] in Hwf. apply andb_prop in Hwf. destruct Hwf as [Hwf1 Hwf2].
    apply andb_prop in Hwf1. destruct Hwf1 as [Hk Hv].
    exists 123, (w1 ++ member_text k wa wb x ++ tl ++ wl), 125.
    split; [rewrite <- !app_assoc; reflexivity|]. split; [tauto|].
    apply okt_app; [apply ws_okt; assumption|]. apply okt_app.
    + unfold member_text. apply okt_app; [apply str_okt; exact Hk|].
      apply okt_app; [apply ws_okt; assumption|]. apply okt_app; [apply pls_okt; reflexivity|].
      apply okt_app; [apply ws_okt; assumption|eapply renders_okt; eassumption].
    + apply okt_app; [eapply mtail_okt; eassumption|apply ws_okt; assumption].
Qed.

(* LEMMA 4: every proper non-empty prefix of  o y cl  ends inside a string or with an open bracket *)
Lemma strict_prefix o y cl : ((o = 91 /\ cl = 93) \/ (o = 123 /\ cl = 125)) -> okt y ->
  forall l q, l <> [] -> q <> [] -> o :: y ++ [cl] = l ++ q ->
  lo 1 (endm l MOut) (depth l MOut).
Proof.
  intros Hoc [_ Py] l q Hl Hq E.
  assert (Ho : nm MOut o = MOut /\ dl MOut o = 1%Z) by (destruct Hoc as [[-> _]|[-> _]]; split; reflexivity).
  destruct Ho as [Ho1 Ho2].
  destruct l as [|c l']; [contradiction|]. cbn [app] in E. inversion E as [[Ec E']]. subst c.
  destruct (exists_last Hq) as [q' [z Eq]]. subst q.
  rewrite app_assoc in E'. apply app_inj_tail in E'. destruct E' as [Ey _].
  specialize (Py 1%Z). rewrite Ey in Py. apply allpre_app in Py. destruct Py as [_ Py].
  apply allpre_hd in Py. cbn [endm depth]. rewrite Ho1, Ho2. exact Py.
Qed.

Theorem renders_prefix_open v x : renders v x -> wf_jv v = true -> top_level v ->
  forall l q, l <> [] -> q <> [] -> x = l ++ q -> lo 1 (endm l MOut) (depth l MOut).
Proof.
  intros Hr Hwf Htop l q Hl Hq E.
  destruct (top_shape v x Hr Hwf Htop) as [o [y [cl [Ex [Hoc Hy]]]]].
  eapply strict_prefix; [exact Hoc|exact Hy|exact Hl|exact Hq|]. rewrite <- Ex. exact E.
Qed.

(* a proper prefix of  w1 ++ x  is blank or ends inside a string or with an open bracket *)
Lemma prefix_blank_or_open v w1 x : wf_jv v = true -> top_level v -> ws w1 -> renders v x ->
  forall p, proper_prefix p (w1 ++ x) -> ws p \/ lo 1 (endm p MOut) (depth p MOut).
Proof.
  intros Hwf Htop Hw1 Hr p [q [Hq E]].
  apply app_eq_app in E. destruct E as [l [[E1 E2]|[E1 E2]]].
  - left. rewrite E1 in Hw1. exact (ws_app_l _ _ Hw1).
  - destruct l as [|c l'].
    + left. rewrite E1, app_nil_r. exact Hw1.
    + right. subst p. destruct (ws_bal w1 Hw1) as [B1 B2].
      rewrite endm_app, depth_app, B1, B2. cbn [Z.add].
      eapply (renders_prefix_open v x Hr Hwf Htop (c :: l') q); [discriminate|exact Hq|exact E2].
Qed.

(* ==================================================================================== *)
(* Part 2. "Whatever the task consumes satisfies P" — combinators, indexed by a fuel bound *)
(* ==================================================================================== *)

(* P is told the consumed text and the text that remains *)
Definition eats (n : nat) (c : ctx) (t : task) (P : text -> text -> Prop) : Prop :=
  forall f s s' ps, (f <= n)%nat -> run G f c t s = Ok s' ps ->
    exists x, s_rest s = x ++ s_rest s' /\ P x (s_rest s').

Definition sk_eats (n : nat) (c : ctx) (P : text -> Prop) : Prop :=
  forall f s s' ps, (f <= n)%nat ->
    skip_with G (fun c' e' => run G f c' (TEval e')) c s = Ok s' ps ->
    exists x, s_rest s = x ++ s_rest s' /\ P x.

(* a failure tells something about the text at the position *)
Definition fails (n : nat) (c : ctx) (t : task) (P : text -> Prop) : Prop :=
  forall f s t', (f <= n)%nat -> run G f c t s = Fail t' -> P (s_rest s).

Lemma eats_weaken n c t (P Q : text -> text -> Prop) :
  eats n c t P -> (forall x r, P x r -> Q x r) -> eats n c t Q.
Proof.
  intros H HPQ f s s' ps Hf E. destruct (H f s s' ps Hf E) as [x [A B]].
  exists x. split; [exact A|apply HPQ; exact B].
Qed.

Lemma sk_weaken n c (P Q : text -> Prop) : sk_eats n c P -> (forall x, P x -> Q x) -> sk_eats n c Q.
Proof.
  intros H HPQ f s s' ps Hf E. destruct (H f s s' ps Hf E) as [x [A B]].
  exists x. split; [exact A|apply HPQ; exact B].
Qed.

Lemma eats_0 c t P : eats 0 c t P.
Proof. intros f s s' ps Hf E. assert (f = 0%nat) by lia. subst f. discriminate E. Qed.

Lemma rest_push_tag tag s : s_rest (push_tag tag s) = s_rest s.
Proof. destruct tag; reflexivity. Qed.
Lemma rest_pop_tag tag s : s_rest (pop_tag tag s) = s_rest s.
Proof. destruct tag; reflexivity. Qed.
Lemma rest_finish_rule c r p s1 kids s2 ps : finish_rule c r p s1 kids = (s2, ps) -> s_rest s2 = s_rest s1.
Proof.
  unfold finish_rule. destruct (r_silent r); [|destruct (visible c r)]; intros H; inversion H; reflexivity.
Qed.

(* ---- terminals ---- *)
Lemma eats_str n c lit : eats n c (TEval (EStr lit)) (fun x _ => x = lit).
Proof.
  intros f s s' ps Hf H. destruct f as [|f]; [discriminate H|]. cbn [run] in H.
  destruct (strip_prefix lit (s_rest s)) as [r|] eqn:E; [|discriminate H].
  inversion H; subst. cbn [adv s_rest]. exists lit. split; [apply strip_prefix_app; exact E|reflexivity].
Qed.

Lemma eats_str_P n c lit (P : text -> text -> Prop) : (forall r, P lit r) -> eats n c (TEval (EStr lit)) P.
Proof. intros H. eapply eats_weaken; [apply eats_str|]. intros x r ->. apply H. Qed.

Lemma eats_ci101 n c : eats n c (TEval (ECIStr [101])) (fun x _ => x = [101] \/ x = [69]).
Proof.
  intros f s s' ps Hf. destruct f as [|f]; [intros H; discriminate H|]. cbn [run].
  destruct (s_rest s) as [|d r0] eqn:R; cbn [strip_prefix_ci]; [intros H; discriminate H|].
  rewrite ascii_lower_e. destruct ((d =? 101) || (d =? 69))%bool eqn:B; [|intros H; discriminate H].
  intros H. inversion H; subst. cbn [adv s_rest]. exists [d]. split; [reflexivity|].
  apply orb_prop in B. destruct B as [B|B]; apply N.eqb_eq in B; subst d; [left|right]; reflexivity.
Qed.

Lemma eats_range n c lo hi :
  eats n c (TEval (ERange lo hi)) (fun x _ => exists d, x = [d] /\ (N.leb lo d && N.leb d hi)%bool = true).
Proof.
  intros f s s' ps Hf. destruct f as [|f]; [intros H; discriminate H|]. cbn [run].
  destruct (s_rest s) as [|d r0] eqn:R; [intros H; discriminate H|].
  destruct (N.leb lo d && N.leb d hi)%bool eqn:B; [|intros H; discriminate H].
  intros H. inversion H; subst. cbn [adv s_rest]. exists [d]. split; [reflexivity|].
  exists d. split; [reflexivity|exact B].
Qed.

Lemma eats_any n c : eats n c (TEval EAny) (fun x _ => exists d, x = [d]).
Proof.
  intros f s s' ps Hf. destruct f as [|f]; [intros H; discriminate H|]. cbn [run].
  destruct (s_rest s) as [|d r0] eqn:R; [intros H; discriminate H|].
  intros H. inversion H; subst. cbn [adv s_rest]. exists [d]. split; [reflexivity|].
  exists d. reflexivity.
Qed.

Lemma eats_soi n c : eats n c (TEval ESoi) (fun x _ => x = []).
Proof.
  intros f s s' ps Hf H. destruct f as [|f]; [discriminate H|]. cbn [run] in H.
  destruct (N.eqb (s_pos s) 0); [|discriminate H]. inversion H; subst.
  exists []. split; reflexivity.
Qed.

Lemma eats_eoi n c : eats n c (TEval EEoi) (fun x r => x = [] /\ r = []).
Proof.
  intros f s s' ps Hf H. destruct f as [|f]; [discriminate H|]. cbn [run] in H.
  destruct (s_rest s) as [|d r0] eqn:R; [|discriminate H]. inversion H; subst.
  exists []. rewrite R. repeat split.
Qed.

(* ---- rule application ---- *)
Lemma eats_ref n c m tag rl P : lookup G m = Some rl ->
  eats n (rule_ctx c rl) (TEval (r_body rl)) P -> eats (S n) c (TEval (ERef m tag)) P.
Proof.
  intros L HB f s s' ps Hf H. destruct f as [|f]; [discriminate H|]. cbn [run] in H. rewrite L in H.
  destruct (run G f (rule_ctx c rl) (TEval (r_body rl)) (push_tag tag s)) as [s1 kids|t| |] eqn:E;
    try discriminate H.
  destruct (finish_rule c rl (s_pos s) s1 kids) as [s2 ps2] eqn:F. inversion H; subst.
  apply HB in E; [|lia]. destruct E as [x [E1 E2]]. exists x.
  rewrite rest_pop_tag, (rest_finish_rule _ _ _ _ _ _ _ F). rewrite rest_push_tag in E1.
  split; [exact E1|exact E2].
Qed.

Lemma eats_le n m c t P : (m <= n)%nat -> eats n c t P -> eats m c t P.
Proof. intros Hm H f s s' ps Hf E. apply (H f s s' ps); [lia|exact E]. Qed.

Lemma eats_ref_same n c m tag rl P : lookup G m = Some rl ->
  eats n (rule_ctx c rl) (TEval (r_body rl)) P -> eats n c (TEval (ERef m tag)) P.
Proof. intros L HB. apply (eats_le (S n)); [lia|]. eapply eats_ref; eassumption. Qed.

(* ---- sequences ---- *)
Lemma eats_seq n c es P : eats n c (TSeq es) P -> eats n c (TEval (ESeq es)) P.
Proof.
  intros H f s s' ps Hf E. destruct f as [|f]; [discriminate E|]. cbn [run] in E.
  apply (H f s s' ps); [lia|exact E].
Qed.

Lemma eats_tseq_nil n c : eats n c (TSeq []) (fun x _ => x = []).
Proof.
  intros f s s' ps Hf E. destruct f as [|f]; [discriminate E|]. cbn [run] in E. inversion E; subst.
  exists []. split; reflexivity.
Qed.

Lemma eats_tseq_one n c e P : eats n c (TEval e) P -> eats n c (TSeq [e]) P.
Proof.
  intros H f s s' ps Hf E. destruct f as [|f]; [discriminate E|]. cbn [run] in E.
  destruct (run G f c (TEval e) s) as [s1 p1|t| |] eqn:E1; try discriminate E.
  inversion E; subst. apply (H f s s' ps); [lia|exact E1].
Qed.

Lemma eats_tseq_cons n c e1 e2 es (P1 : text -> text -> Prop) (Pw : text -> Prop)
  (P2 Q : text -> text -> Prop) :
  eats n c (TEval e1) P1 -> sk_eats n c Pw -> eats n c (TSeq (e2 :: es)) P2 ->
  (forall x1 w x2 r, P1 x1 (w ++ x2 ++ r) -> Pw w -> P2 x2 r -> Q (x1 ++ w ++ x2) r) ->
  eats n c (TSeq (e1 :: e2 :: es)) Q.
Proof.
  intros H1 Hk H2 HQ f s s' ps Hf E. destruct f as [|f]; [discriminate E|]. cbn [run] in E.
  destruct (run G f c (TEval e1) s) as [s1 p1|t| |] eqn:E1; try discriminate E.
  destruct (skip_with G _ c s1) as [s2 pw|t| |] eqn:Ek; try discriminate E.
  destruct (run G f c (TSeq (e2 :: es)) s2) as [s3 p3|t| |] eqn:E3; try discriminate E.
  inversion E; subst.
  apply H1 in E1; [|lia]. apply Hk in Ek; [|lia]. apply H2 in E3; [|lia].
  destruct E1 as [x1 [A1 B1]]. destruct Ek as [w [A2 B2]]. destruct E3 as [x2 [A3 B3]].
  exists (x1 ++ w ++ x2). split.
  - rewrite A1, A2, A3, <- !app_assoc. reflexivity.
  - apply HQ; [rewrite <- A3, <- A2; exact B1|exact B2|exact B3].
Qed.

(* ---- ordered choice ---- *)
Lemma eats_alt n c es P : eats n c (TAlt es) P -> eats n c (TEval (EAlt es)) P.
Proof.
  intros H f s s' ps Hf E. destruct f as [|f]; [discriminate E|]. cbn [run] in E.
  apply (H f s s' ps); [lia|exact E].
Qed.

Lemma eats_talt_nil n c P : eats n c (TAlt []) P.
Proof. intros f s s' ps Hf E. destruct f as [|f]; discriminate E. Qed.

Lemma eats_talt_cons n c e1 es P : eats n c (TEval e1) P -> eats n c (TAlt es) P ->
  eats n c (TAlt (e1 :: es)) P.
Proof.
  intros H1 H2 f s s' ps Hf E. destruct f as [|f]; [discriminate E|]. cbn [run] in E.
  destruct (run G f c (TEval e1) s) as [s1 p1|t| |] eqn:E1; try discriminate E.
  - inversion E; subst. apply (H1 f s s' ps); [lia|exact E1].
  - apply (H2 f) in E; [|lia]. exact E.
Qed.

(* ---- option, group, predicates ---- *)
Lemma eats_opt n c e (P : text -> text -> Prop) : eats n c (TEval e) P -> (forall r, P [] r) ->
  eats n c (TEval (EOpt e)) P.
Proof.
  intros H HP f s s' ps Hf E. destruct f as [|f]; [discriminate E|]. cbn [run] in E.
  destruct (run G f c (TEval e) s) as [s1 p1|t| |] eqn:E1; try discriminate E.
  - inversion E; subst. apply (H f s s' ps); [lia|exact E1].
  - inversion E; subst. exists []. split; [reflexivity|apply HP].
Qed.

Lemma eats_grp n c e tag P : eats n c (TEval e) P -> eats n c (TEval (EGrp e tag)) P.
Proof.
  intros H f s s' ps Hf E. destruct f as [|f]; [discriminate E|]. cbn [run] in E.
  destruct (run G f c (TEval e) (push_tag tag s)) as [s1 p1|t| |] eqn:E1; try discriminate E.
  inversion E; subst. apply H in E1; [|lia]. destruct E1 as [x [A B]].
  exists x. rewrite rest_pop_tag. rewrite rest_push_tag in A. split; assumption.
Qed.

Lemma eats_not n c e (Pf : text -> Prop) : fails n (neg_ctx c) (TEval e) Pf ->
  eats n c (TEval (ENot e)) (fun x r => x = [] /\ Pf r).
Proof.
  intros H f s s' ps Hf E. destruct f as [|f]; [discriminate E|]. cbn [run] in E.
  destruct (run G f (neg_ctx c) (TEval e) s) as [s1 p1|t| |] eqn:E1; try discriminate E.
  inversion E; subst. exists []. split; [reflexivity|]. split; [reflexivity|].
  cbn [set_trk s_rest]. apply (H f s t); [lia|exact E1].
Qed.

(* ---- failures (only what the negative predicate of rule char needs) ---- *)
Lemma fails_str n c lit : fails n c (TEval (EStr lit)) (fun r => strip_prefix lit r = None).
Proof.
  intros f s t' Hf E. destruct f as [|f]; [discriminate E|]. cbn [run] in E.
  destruct (strip_prefix lit (s_rest s)); [discriminate E|reflexivity].
Qed.

Lemma fails_talt_nil n c : fails n c (TAlt []) (fun _ => True).
Proof. intros f s t' Hf E. exact I. Qed.

Lemma fails_talt_cons n c e1 es (P1 P2 : text -> Prop) :
  fails n c (TEval e1) P1 -> fails n c (TAlt es) P2 -> fails n c (TAlt (e1 :: es)) (fun r => P1 r /\ P2 r).
Proof.
  intros H1 H2 f s t' Hf E. destruct f as [|f]; [discriminate E|]. cbn [run] in E.
  destruct (run G f c (TEval e1) s) as [s1 p1|t| |] eqn:E1; try discriminate E.
  split; [apply (H1 f s t); [lia|exact E1]|].
  apply (H2 f) in E; [|lia]. exact E.
Qed.

Lemma fails_alt n c es P : fails n c (TAlt es) P -> fails n c (TEval (EAlt es)) P.
Proof.
  intros H f s t' Hf E. destruct f as [|f]; [discriminate E|]. cbn [run] in E.
  apply (H f s t'); [lia|exact E].
Qed.

Lemma fails_grp n c e tag P : fails n c (TEval e) P -> fails n c (TEval (EGrp e tag)) P.
Proof.
  intros H f s t' Hf E. destruct f as [|f]; [discriminate E|]. cbn [run] in E.
  destruct (run G f c (TEval e) (push_tag tag s)) as [s1 p1|t| |] eqn:E1; try discriminate E.
  inversion E; subst. rewrite <- (rest_push_tag tag s). apply (H f _ t'); [lia|exact E1].
Qed.

(* ---- repetition and sequences over a predicate closed under concatenation ---- *)
Section Monoid.
Variable M : text -> Prop.
Hypothesis M_nil : M [].
Hypothesis M_app : forall a b, M a -> M b -> M (a ++ b).

Lemma eatsM_tstar n c e : eats n c (TEval e) (fun x _ => M x) -> sk_eats n c M ->
  eats n c (TStar e) (fun x _ => M x).
Proof.
  intros He Hk f. induction f as [|f IH]; intros s s' ps Hf E; [discriminate E|]. cbn [run] in E.
  destruct (skip_with G _ c s) as [s2 pw|t| |] eqn:Ek; try discriminate E.
  destruct (run G f c (TEval e) s2) as [s3 p3|t| |] eqn:E3; try discriminate E.
  - destruct (run G f c (TStar e) s3) as [s4 p4|t| |] eqn:E4; try discriminate E. inversion E; subst.
    apply Hk in Ek; [|lia]. apply He in E3; [|lia]. apply IH in E4; [|lia].
    destruct Ek as [w [A1 B1]]. destruct E3 as [x [A2 B2]]. destruct E4 as [y [A3 B3]].
    exists (w ++ x ++ y). split; [rewrite A1, A2, A3, <- !app_assoc; reflexivity|].
    apply M_app; [exact B1|apply M_app; assumption].
  - inversion E; subst. exists []. split; [reflexivity|exact M_nil].
Qed.

Lemma eatsM_star n c e : eats n c (TEval e) (fun x _ => M x) -> sk_eats n c M ->
  eats n c (TEval (EStar e)) (fun x _ => M x).
Proof.
  intros He Hk f s s' ps Hf E. destruct f as [|f]; [discriminate E|]. cbn [run] in E.
  destruct (run G f c (TEval e) s) as [s1 p1|t| |] eqn:E1; try discriminate E.
  - destruct (run G f c (TStar e) s1) as [s2 p2|t| |] eqn:E2; try discriminate E. inversion E; subst.
    apply He in E1; [|lia]. apply (eatsM_tstar n c e He Hk) in E2; [|lia].
    destruct E1 as [x [A1 B1]]. destruct E2 as [y [A2 B2]].
    exists (x ++ y). split; [rewrite A1, A2, <- app_assoc; reflexivity|apply M_app; assumption].
  - inversion E; subst. exists []. split; [reflexivity|exact M_nil].
Qed.

Lemma eatsM_tseq n c es : Forall (fun e => eats n c (TEval e) (fun x _ => M x)) es -> sk_eats n c M ->
  eats n c (TSeq es) (fun x _ => M x).
Proof.
  intros HF Hk. induction es as [|e1 es IH].
  - eapply eats_weaken; [apply eats_tseq_nil|]. intros x r ->. exact M_nil.
  - inversion HF as [|a l Ha Hl]; subst. destruct es as [|e2 es].
    + apply eats_tseq_one. exact Ha.
    + eapply eats_tseq_cons; [exact Ha|exact Hk|exact (IH Hl)|].
      intros x1 w x2 r A B C. apply M_app; [exact A|apply M_app; assumption].
Qed.

Lemma eatsM_seq n c es : Forall (fun e => eats n c (TEval e) (fun x _ => M x)) es -> sk_eats n c M ->
  eats n c (TEval (ESeq es)) (fun x _ => M x).
Proof. intros HF Hk. apply eats_seq. apply eatsM_tseq; assumption. Qed.

Lemma eatsM_plus n c e : eats n c (TEval e) (fun x _ => M x) -> sk_eats n c M ->
  eats n c (TEval (EPlus e)) (fun x _ => M x).
Proof.
  intros He Hk f s s' ps Hf E. destruct f as [|f]; [discriminate E|]. cbn [run] in E.
  apply (eatsM_tseq n c [e; EStar e]) in E; [exact E| |exact Hk|lia].
  apply Forall_cons; [exact He|]. apply Forall_cons; [|apply Forall_nil].
  apply eatsM_star; assumption.
Qed.

Lemma eatsM_repn n c e k : eats n c (TEval e) (fun x _ => M x) -> sk_eats n c M ->
  eats n c (TEval (ERepN e k)) (fun x _ => M x).
Proof.
  intros He Hk f s s' ps Hf E. destruct f as [|f]; [discriminate E|]. cbn [run] in E.
  apply (eatsM_tseq n c (repeat e k)) in E; [exact E| |exact Hk|lia].
  apply Forall_forall. intros a Ha. apply repeat_spec in Ha. subst a. exact He.
Qed.

Lemma eatsM_opt n c e : eats n c (TEval e) (fun x _ => M x) -> eats n c (TEval (EOpt e)) (fun x _ => M x).
Proof. intros He. apply eats_opt; [exact He|]. intros r. exact M_nil. Qed.

End Monoid.

(* ==================================================================================== *)
(* Part 3. Soundness of json.pest with respect to the scanner                            *)
(* ==================================================================================== *)

(* ---- implicit whitespace ---- *)
Lemma skip_at n c : c_atom c <> NonAtomic -> sk_eats n c (fun x => x = []).
Proof.
  intros Hc f s s' ps Hf E. rewrite (atomic_no_trivia G _ c s Hc) in E. inversion E; subst.
  exists []. split; reflexivity.
Qed.

Lemma ws_rule n c : eats n c (TEval (ERef 0 None)) (fun x _ => ws x).
Proof.
  eapply eats_ref_same; [exact lk_ws|]. cbn [r_body mkrule]. unfold ws_body. apply eats_alt.
  repeat (apply eats_talt_cons; [apply eats_str_P; intros r; reflexivity|]). apply eats_talt_nil.
Qed.

Lemma skip_na n c : c_atom c = NonAtomic -> sk_eats n c ws.
Proof.
  intros Hc f s s' ps Hf E. unfold skip_with in E. rewrite Hc, json_skip in E.
  assert (K : eats n (skip_ctx c) (TEval (EStar (ERef 0 None))) (fun x _ => ws x)).
  { apply (eatsM_star ws eq_refl ws_app); [apply ws_rule|].
    eapply sk_weaken; [apply skip_at; cbn; discriminate|]. intros x ->. reflexivity. }
  destruct (K f s s' ps Hf E) as [x [A B]]. exists x. split; assumption.
Qed.

(* ---- digits, numbers, literals ---- *)
Lemma digit_rule n c : eats n c (TEval (ERef 10 None)) (fun x _ => pls x).
Proof.
  eapply eats_ref_same; [exact lk_digit|]. cbn [r_body mkrule].
  eapply eats_weaken; [apply eats_range|]. intros x r [d [-> H]].
  unfold pls. cbn [forallb]. rewrite andb_true_r. apply (range_plainO 48 57); [lia|lia|exact H].
Qed.

Lemma nzdigit_rule n c : eats n c (TEval (ERef 9 None)) (fun x _ => pls x).
Proof.
  eapply eats_ref_same; [exact lk_nzdigit|]. cbn [r_body mkrule].
  eapply eats_weaken; [apply eats_range|]. intros x r [d [-> H]].
  unfold pls. cbn [forallb]. rewrite andb_true_r. apply (range_plainO 49 57); [lia|lia|exact H].
Qed.

Lemma ci_pls n c : eats n c (TEval (ECIStr [101])) (fun x _ => pls x).
Proof. eapply eats_weaken; [apply eats_ci101|]. intros x r [->| ->]; reflexivity. Qed.

(* expressions built from plain literals, digits, and the regular operators *)
Ltac plg K :=
  lazymatch goal with
  | |- eats _ _ (TEval (ESeq _)) _ => apply (eatsM_seq pls pls_nil pls_app); [plf K|exact K]
  | |- eats _ _ (TEval (EAlt _)) _ => apply eats_alt; pla K
  | |- eats _ _ (TEval (EOpt _)) _ => apply (eatsM_opt pls pls_nil); plg K
  | |- eats _ _ (TEval (EStar _)) _ => apply (eatsM_star pls pls_nil pls_app); [plg K|exact K]
  | |- eats _ _ (TEval (EPlus _)) _ => apply (eatsM_plus pls pls_nil pls_app); [plg K|exact K]
  | |- eats _ _ (TEval (EGrp _ _)) _ => apply eats_grp; plg K
  | |- eats _ _ (TEval (EStr _)) _ => apply eats_str_P; intros ?; reflexivity
  | |- eats _ _ (TEval (ECIStr _)) _ => apply ci_pls
  | |- eats _ _ (TEval (ERef 10 None)) _ => apply digit_rule
  | |- eats _ _ (TEval (ERef 9 None)) _ => apply nzdigit_rule
  end
with plf K :=
  lazymatch goal with
  | |- Forall _ [] => apply Forall_nil
  | |- Forall _ (_ :: _) => apply Forall_cons; [cbv beta; plg K|plf K]
  end
with pla K :=
  lazymatch goal with
  | |- eats _ _ (TAlt []) _ => apply eats_talt_nil
  | |- eats _ _ (TAlt (_ :: _)) _ => apply eats_talt_cons; [plg K|pla K]
  end.

Lemma number_rule n c : eats n c (TEval (ERef 8 None)) (fun x _ => pls x).
Proof.
  eapply eats_ref_same; [exact lk_number|]. cbn [r_body mkrule].
  set (c1 := rule_ctx c _).
  assert (K : sk_eats n c1 pls).
  { eapply sk_weaken; [apply skip_at; cbn; discriminate|]. intros x ->. reflexivity. }
  unfold number_body, e_int, e_frac, e_exp, e_sign, e_digit. plg K.
Qed.

Lemma null_rule n c : eats n c (TEval (ERef 16 None)) (fun x _ => pls x).
Proof.
  eapply eats_ref_same; [exact lk_null|]. cbn [r_body mkrule]. apply eats_str_P. intros r. reflexivity.
Qed.

Lemma boolean_rule n c : eats n c (TEval (ERef 17 None)) (fun x _ => pls x).
Proof.
  eapply eats_ref_same; [exact lk_boolean|]. cbn [r_body mkrule]. unfold boolean_body. apply eats_alt.
  repeat (apply eats_talt_cons; [apply eats_str_P; intros r; reflexivity|]). apply eats_talt_nil.
Qed.

(* ---- strings ---- *)
Lemma any_rule n c : eats n c (TEval (ERef 12 None)) (fun x _ => exists d, x = [d]).
Proof. eapply eats_ref_same; [exact lk_any|]. cbn [r_body mkrule]. apply eats_any. Qed.

Lemma hex_rule n c : eats n c (TEval (ERef 13 None)) (fun x _ => pli x).
Proof.
  eapply eats_ref_same; [exact lk_hex|]. cbn [r_body mkrule]. unfold hex_body. apply eats_alt.
  repeat (apply eats_talt_cons;
    [eapply eats_weaken; [apply eats_range|]; intros x r [d [-> H]];
     unfold pli; cbn [forallb]; rewrite andb_true_r; revert H; apply range_plainI; lia|]).
  apply eats_talt_nil.
Qed.

(* the next character is neither the quote nor the backslash *)
Definition nq (r : text) : Prop := strip_prefix [34] r = None /\ strip_prefix [92] r = None /\ True.

Lemma notq_rule n c : eats n c (TEval e_notq) (fun x r => x = [] /\ nq r).
Proof.
  unfold e_notq. apply eats_not. apply fails_grp. apply fails_alt.
  apply fails_talt_cons; [apply fails_str|]. apply fails_talt_cons; [apply fails_str|].
  apply fails_talt_nil.
Qed.

Lemma nq_plainI d r : nq (d :: r) -> plainI d = true.
Proof.
  unfold nq, plainI. cbn [strip_prefix]. intros [A [B _]].
  rewrite (N.eqb_sym d 34), (N.eqb_sym d 92).
  destruct (34 =? d); [discriminate A|]. destruct (92 =? d); [discriminate B|]. reflexivity.
Qed.

Lemma char_rule n c : c_atom c = Atomic -> eats n c (TEval (ERef 11 None)) (fun x _ => inn x).
Proof.
  intros Hc. eapply eats_ref_same; [exact lk_char|]. cbn [r_body mkrule].
  set (c1 := rule_ctx c _).
  assert (Hc1 : c_atom c1 <> NonAtomic).
  { unfold c1. rewrite rule_ctx_atom_normal by reflexivity. rewrite Hc. discriminate. }
  assert (K := skip_at n c1 Hc1).
  unfold char_body. apply eats_alt.
  apply eats_talt_cons; [|apply eats_talt_cons; [|apply eats_talt_cons; [|apply eats_talt_nil]]].
  - (* any character but the quote and the backslash *)
    apply eats_seq. eapply eats_tseq_cons; [apply notq_rule|exact K|apply eats_tseq_one; apply any_rule|].
    intros x1 w x2 r [-> Hq] -> [d ->]. cbn [app] in *.
    apply pli_inn. unfold pli. cbn [forallb]. rewrite (nq_plainI d r Hq). reflexivity.
  - (* backslash and one character *)
    apply eats_seq. eapply eats_tseq_cons with (P2 := fun x _ => exists d, x = [d]);
      [apply eats_str|exact K|apply eats_tseq_one|].
    + unfold e_escs. apply eats_grp. apply eats_alt.
      repeat (apply eats_talt_cons; [apply eats_str_P; intros r; eexists; reflexivity|]).
      apply eats_talt_nil.
    + intros x1 w x2 r -> -> [d ->]. cbn [app]. split; reflexivity.
  - (* backslash, u, four hex digits *)
    apply eats_seq. eapply eats_tseq_cons with (P2 := fun x _ => exists hs, x = 117 :: hs /\ pli hs);
      [apply eats_str|exact K|apply eats_tseq_one|].
    + unfold e_uni. apply eats_grp. apply eats_seq.
      eapply eats_tseq_cons with (P2 := fun x _ => pli x); [apply eats_str|exact K|apply eats_tseq_one|].
      * apply (eatsM_repn pli pli_nil pli_app); [apply hex_rule|].
        eapply sk_weaken; [exact K|]. intros x ->. reflexivity.
      * intros x1 w x2 r -> -> H. cbn [app]. exists x2. split; [reflexivity|exact H].
    + intros x1 w x2 r -> -> [hs [-> H]]. cbn [app]. destruct (pli_inn hs H) as [A B].
      split; cbn [endm depth]; [exact A|].
      change (nm MStr 92) with MEsc. change (nm MEsc 117) with MStr. rewrite B. reflexivity.
Qed.

Lemma inner_rule n c : eats n c (TEval (ERef 14 None)) (fun x _ => inn x).
Proof.
  eapply eats_ref_same; [exact lk_inner|]. cbn [r_body mkrule].
  set (c1 := rule_ctx c _).
  assert (Hc1 : c_atom c1 = Atomic) by reflexivity.
  unfold inner_body. apply (eatsM_star inn inn_nil inn_app); [apply char_rule; exact Hc1|].
  eapply sk_weaken; [apply skip_at; rewrite Hc1; discriminate|]. intros x ->. exact inn_nil.
Qed.

Lemma bal_quoted xi : inn xi -> bal ([34] ++ [] ++ xi ++ [] ++ [34]).
Proof.
  intros [A B]. cbn [app]. split.
  - cbn [endm]. change (nm MOut 34) with MStr. rewrite endm_app, A. reflexivity.
  - cbn [depth]. change (nm MOut 34) with MStr. rewrite depth_app, A, B. reflexivity.
Qed.

Lemma string_rule n c : eats n c (TEval (ERef 15 None)) (fun x _ => bal x).
Proof.
  eapply eats_ref_same; [exact lk_string|]. cbn [r_body mkrule].
  set (c1 := rule_ctx c _).
  assert (K : sk_eats n c1 (fun x => x = [])) by (apply skip_at; cbn; discriminate).
  unfold string_body. apply eats_seq.
  eapply eats_tseq_cons with (P2 := fun x _ => exists xi, x = xi ++ [] ++ [34] /\ inn xi);
    [apply eats_str|exact K| |].
  - eapply eats_tseq_cons; [apply inner_rule|exact K|apply eats_tseq_one; apply eats_str|].
    intros x1 w x2 r H -> ->. exists x1. split; [reflexivity|exact H].
  - intros x1 w x2 r -> -> [xi [-> H]]. apply bal_quoted. exact H.
Qed.

(* ---- values, pairs, objects, arrays ---- *)
Definition brk (x : text) : Prop := bal x /\ exists r, x = 91 :: r \/ x = 123 :: r.

Lemma bal_brk o cl y : (o = 91 /\ cl = 93) \/ (o = 123 /\ cl = 125) -> bal y -> brk ([o] ++ y ++ [cl]).
Proof.
  intros Hoc [E1 E2].
  assert (Ho : nm MOut o = MOut /\ dl MOut o = 1%Z) by (destruct Hoc as [[-> _]|[-> _]]; split; reflexivity).
  assert (Hc : nm MOut cl = MOut /\ dl MOut cl = (-1)%Z) by (destruct Hoc as [[_ ->]|[_ ->]]; split; reflexivity).
  destruct Ho as [Ho1 Ho2]. destruct Hc as [Hc1 Hc2]. cbn [app]. split.
  - split.
    + cbn [endm]. rewrite Ho1, endm_app, E1. cbn [endm]. exact Hc1.
    + cbn [depth]. rewrite Ho1, Ho2, depth_app, E1, E2. cbn [depth]. rewrite Hc2. reflexivity.
  - exists (y ++ [cl]). destruct Hoc as [[-> _]|[-> _]]; [left|right]; reflexivity.
Qed.

Section Level.
Variable n : nat.

Lemma more_rule k :
  (forall c, c_atom c = NonAtomic -> eats n c (TEval (ERef k None)) (fun x _ => bal x)) ->
  forall c, c_atom c = NonAtomic -> eats n c (TEval (e_more k)) (fun x _ => bal x).
Proof.
  intros Hk c Hc. unfold e_more. apply eats_grp. apply (eatsM_seq bal bal_nil bal_app).
  - apply Forall_cons; [apply eats_str_P; intros r; apply pls_bal; reflexivity|].
    apply Forall_cons; [apply Hk; exact Hc|apply Forall_nil].
  - eapply sk_weaken; [apply skip_na; exact Hc|]. exact ws_bal.
Qed.

Lemma coll_rule k o cl : (o = 91 /\ cl = 93) \/ (o = 123 /\ cl = 125) ->
  (forall c, c_atom c = NonAtomic -> eats n c (TEval (ERef k None)) (fun x _ => bal x)) ->
  forall c, c_atom c = NonAtomic -> eats n c (TEval (coll_body k o cl)) (fun x _ => brk x).
Proof.
  intros Hoc Hk c Hc. assert (K := skip_na n c Hc).
  unfold coll_body. apply eats_alt.
  apply eats_talt_cons; [|apply eats_talt_cons; [|apply eats_talt_nil]].
  - apply eats_seq. eapply eats_tseq_cons; [apply eats_str|exact K|apply eats_tseq_one; apply eats_str|].
    intros x1 w x2 r -> Hw ->. apply bal_brk; [exact Hoc|apply ws_bal; exact Hw].
  - apply eats_seq.
    eapply eats_tseq_cons with (P2 := fun x _ => exists y, x = y ++ [cl] /\ bal y);
      [apply eats_str|exact K| |].
    + eapply eats_tseq_cons with (P2 := fun x _ => exists y, x = y ++ [cl] /\ bal y);
        [apply Hk; exact Hc|exact K| |].
      * eapply eats_tseq_cons; [|exact K|apply eats_tseq_one; apply eats_str|].
        -- apply (eatsM_star bal bal_nil bal_app); [apply more_rule; assumption|].
           eapply sk_weaken; [exact K|]. exact ws_bal.
        -- intros x1 w x2 r H Hw ->. exists (x1 ++ w). split; [rewrite <- app_assoc; reflexivity|].
           apply bal_app; [exact H|apply ws_bal; exact Hw].
      * intros x1 w x2 r H Hw [y [-> Hy]]. exists (x1 ++ w ++ y).
        split; [rewrite <- !app_assoc; reflexivity|].
        apply bal_app; [exact H|]. apply bal_app; [apply ws_bal; exact Hw|exact Hy].
    + intros x1 w x2 r -> Hw [y [-> Hy]].
      replace ([o] ++ w ++ y ++ [cl]) with ([o] ++ (w ++ y) ++ [cl]) by (rewrite <- !app_assoc; reflexivity).
      apply bal_brk; [exact Hoc|]. apply bal_app; [apply ws_bal; exact Hw|exact Hy].
Qed.

End Level.

Definition level (n : nat) : Prop := forall c, c_atom c = NonAtomic ->
  eats n c (TEval (ERef 18 None)) (fun x _ => bal x) /\
  eats n c (TEval (ERef 19 None)) (fun x _ => bal x) /\
  eats n c (TEval (ERef 6 None)) (fun x _ => brk x) /\
  eats n c (TEval (ERef 7 None)) (fun x _ => brk x).

(* SOUNDNESS: value, pair, object and array consume balanced texts; object and array consume
   texts that start with their bracket *)
Theorem value_level : forall n, level n.
Proof.
  induction n as [|n IH]; intros c Hc; [repeat split; apply eats_0|].
  assert (V : forall c, c_atom c = NonAtomic -> eats n c (TEval (ERef 18 None)) (fun x _ => bal x))
    by (intros c' Hc'; apply (IH c' Hc')).
  assert (P : forall c, c_atom c = NonAtomic -> eats n c (TEval (ERef 19 None)) (fun x _ => bal x))
    by (intros c' Hc'; apply (IH c' Hc')).
  split; [|split; [|split]].
  - (* value *)
    eapply eats_ref; [exact lk_value|]. cbn [r_body mkrule].
    set (c1 := rule_ctx c _).
    assert (Hc1 : c_atom c1 = NonAtomic) by (unfold c1; rewrite rule_ctx_atom_normal by reflexivity; exact Hc).
    destruct (IH c1 Hc1) as [_ [_ [HO HA]]].
    unfold value_body. apply eats_alt.
    apply eats_talt_cons; [eapply eats_weaken; [exact HO|]; intros x r [H _]; exact H|].
    apply eats_talt_cons; [eapply eats_weaken; [exact HA|]; intros x r [H _]; exact H|].
    apply eats_talt_cons; [apply string_rule|].
    apply eats_talt_cons; [eapply eats_weaken; [apply number_rule|]; intros x r; apply pls_bal|].
    apply eats_talt_cons; [eapply eats_weaken; [apply boolean_rule|]; intros x r; apply pls_bal|].
    apply eats_talt_cons; [eapply eats_weaken; [apply null_rule|]; intros x r; apply pls_bal|].
    apply eats_talt_nil.
  - (* pair *)
    eapply eats_ref; [exact lk_pair|]. cbn [r_body mkrule].
    set (c1 := rule_ctx c _).
    assert (Hc1 : c_atom c1 = NonAtomic) by (unfold c1; rewrite rule_ctx_atom_normal by reflexivity; exact Hc).
    unfold pair_body. apply (eatsM_seq bal bal_nil bal_app).
    + apply Forall_cons; [apply string_rule|].
      apply Forall_cons; [apply eats_str_P; intros r; apply pls_bal; reflexivity|].
      apply Forall_cons; [apply V; exact Hc1|apply Forall_nil].
    + eapply sk_weaken; [apply skip_na; exact Hc1|]. exact ws_bal.
  - (* object *)
    eapply eats_ref; [exact lk_object|]. cbn [r_body mkrule].
    set (c1 := rule_ctx c _).
    assert (Hc1 : c_atom c1 = NonAtomic) by (unfold c1; rewrite rule_ctx_atom_normal by reflexivity; exact Hc).
    apply (coll_rule n 19 123 125); [tauto|exact P|exact Hc1].
  - (* array *)
    eapply eats_ref; [exact lk_array|]. cbn [r_body mkrule].
    set (c1 := rule_ctx c _).
    assert (Hc1 : c_atom c1 = NonAtomic) by (unfold c1; rewrite rule_ctx_atom_normal by reflexivity; exact Hc).
    apply (coll_rule n 18 91 93); [tauto|exact V|exact Hc1].
Qed.

Theorem value_balanced : forall f c s s' ps, c_atom c = NonAtomic ->
  run G f c (TEval (ERef 18 None)) s = Ok s' ps -> exists x, s_rest s = x ++ s_rest s' /\ bal x.
Proof.
  intros f c s s' ps Hc E. destruct (value_level f c Hc) as [V _].
  exact (V f s s' ps (le_n f) E).
Qed.

Theorem string_balanced : forall f c s s' ps,
  run G f c (TEval (ERef 15 None)) s = Ok s' ps -> exists x, s_rest s = x ++ s_rest s' /\ bal x.
Proof. intros f c s s' ps E. exact (string_rule f c f s s' ps (le_n f) E). Qed.

Theorem number_plain : forall f c s s' ps,
  run G f c (TEval (ERef 8 None)) s = Ok s' ps -> exists x, s_rest s = x ++ s_rest s' /\ pls x.
Proof. intros f c s s' ps E. exact (number_rule f c f s s' ps (le_n f) E). Qed.

(* ==================================================================================== *)
(* Part 4. Accepted texts; the theorem                                                   *)
(* ==================================================================================== *)

(* an accepted text is  ws* (object | array) ws*  *)
Lemma json_rule n : eats n ctx0 (TEval (ERef 4 None))
  (fun x r => r = [] /\ exists w1 b w2, x = w1 ++ b ++ w2 /\ ws w1 /\ brk b /\ ws w2).
Proof.
  eapply eats_ref_same; [exact lk_json|]. cbn [r_body mkrule].
  set (c1 := rule_ctx ctx0 _).
  assert (Hc1 : c_atom c1 = NonAtomic) by reflexivity.
  assert (K := skip_na n c1 Hc1).
  destruct (value_level n c1 Hc1) as [_ [_ [HO HA]]].
  unfold json_body. apply eats_seq.
  eapply eats_tseq_cons with (P2 := fun x r => r = [] /\ exists b w2, x = b ++ w2 /\ brk b /\ ws w2);
    [eapply eats_ref_same; [exact lk_soi|]; apply eats_soi|exact K| |].
  - eapply eats_tseq_cons with (P1 := fun x _ => brk x); [|exact K|apply eats_tseq_one| ].
    + apply eats_grp. apply eats_alt.
      apply eats_talt_cons; [exact HO|]. apply eats_talt_cons; [exact HA|]. apply eats_talt_nil.
    + eapply eats_ref_same; [exact lk_eoi|]. apply eats_eoi.
    + intros x1 w x2 r Hb Hw [-> ->]. split; [reflexivity|].
      exists x1, w. split; [rewrite app_nil_r; reflexivity|]. split; assumption.
  - intros x1 w x2 r -> Hw [-> [b [w2 [-> [Hb Hw2]]]]]. split; [reflexivity|].
    exists w, b, w2. split; [reflexivity|]. split; [exact Hw|]. split; [exact Hb|exact Hw2].
Qed.

(* SOUNDNESS for documents: an accepted text is balanced and contains a bracket *)
Theorem accepted_balanced : forall f p s tree,
  parse json_grammar f json_grammar_start p 0 = Ok s tree ->
  bal p /\ forallb is_ws p = false.
Proof.
  intros f p s tree H. unfold parse, eval in H.
  destruct (json_rule f f _ s tree (le_n f) H) as [x [E [Er [w1 [b [w2 [Ex [Hw1 [[Hb [r Hr]] Hw2]]]]]]]]].
  cbn [st0 s_rest skipn] in E. rewrite Er, app_nil_r in E. subst x. rewrite Ex. split.
  - apply bal_app; [apply ws_bal; exact Hw1|]. apply bal_app; [exact Hb|apply ws_bal; exact Hw2].
  - rewrite !forallb_app. destruct Hr as [-> | ->]; cbn [forallb];
      change (is_ws 91) with false; change (is_ws 123) with false;
      rewrite ?andb_false_l, ?andb_false_r; reflexivity.
Qed.

(* REJECTION OF PROPER PREFIXES *)
Theorem json_prefix_rejected : forall v w1 x, wf_jv v = true -> top_level v -> ws w1 -> renders v x ->
  forall p, proper_prefix p (w1 ++ x) ->
  forall f s tree, parse json_grammar f json_grammar_start p 0 <> Ok s tree.
Proof.
  intros v w1 x Hwf Htop Hw1 Hr p Hp f s tree H.
  destruct (accepted_balanced f p s tree H) as [[B1 B2] Hnb].
  destruct (prefix_blank_or_open v w1 x Hwf Htop Hw1 Hr p Hp) as [Hb|Ho].
  - unfold ws in Hb. rewrite Hb in Hnb. discriminate Hnb.
  - rewrite B1, B2 in Ho. destruct Ho as [Ho|Ho]; [apply Ho; reflexivity|lia].
Qed.

(* ==================================================================================== *)
(* Part 5. Non-vacuity                                                                   *)
(*   the document of JsonComplete.v (leading space, no trailing whitespace):              *)
(*    {"k\né" : [1, -2.5e+3 ,true,false , null, "x\\" ] ,"o":{ } , "e" : [<TAB>]}          *)
(* ==================================================================================== *)

Definition ex_doc : text := removelast ex_text.

(* it is  space ++ rendering of ex_v  *)
Example ex_doc_renders : exists x, ex_doc = [32] ++ x /\ renders ex_v x.
Proof. eexists. split; [|exact ex_r]. vm_compute. reflexivity. Qed.

(* the theorem applies to it *)
Example ex_prefixes_rejected : forall p, proper_prefix p ex_doc ->
  forall f s tree, parse json_grammar f json_grammar_start p 0 <> Ok s tree.
Proof.
  destruct ex_doc_renders as [x [E Hr]]. rewrite E.
  exact (json_prefix_rejected ex_v [32] x ex_wf I eq_refl Hr).
Qed.

(* ... and agrees with running the reference semantics with fuel 100: the document is accepted,
   each of its 77 proper prefixes (lengths 0 .. 76) fails (a Fail, not a fuel exhaustion) *)
Definition is_ok (r : res) : bool := match r with Ok _ _ => true | _ => false end.
Definition is_fail (r : res) : bool := match r with Fail _ => true | _ => false end.

Example ex_doc_accepted : is_ok (parse json_grammar 100 json_grammar_start ex_doc 0) = true.
Proof. vm_compute. reflexivity. Qed.

Example ex_prefixes_fail :
  length ex_doc = 77%nat /\
  forallb (fun k => is_fail (parse json_grammar 100 json_grammar_start (firstn k ex_doc) 0))
          (seq 0 (length ex_doc)) = true.
Proof. vm_compute. split; reflexivity. Qed.

Print Assumptions renders_prefix_open.
Print Assumptions value_level.
Print Assumptions accepted_balanced.
Print Assumptions ex_prefixes_rejected.
Print Assumptions json_prefix_rejected.
