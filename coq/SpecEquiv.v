(* SpecEquiv.v — meaning-preserving rewrites of the reference semantics: the failure tracker
   (and the context fields it is computed from) never influences control flow; groups,
   duplicated / impossible alternatives, re-association, extraction into a silent rule;
   semantic equivalence is a congruence. *)
From Coq Require Import List NArith ZArith Bool Arith Lia.
Import ListNotations.
From PP Require Import Base Syntax Spec SpecMono SpecLaws.
From PP Require Import SpecSyn SpecWf.

(* ------------------------------------------------------------------------------------ *)
(* cores                                                                                 *)
(* ------------------------------------------------------------------------------------ *)

Definition st_core (s : st) := (s_pos s, s_rest s, s_stk s, s_tags s).

Definition core (r : res) : option (option ((N * text * list text * list N) * list pair)) :=
  match r with
  | Ok s ps => Some (Some (st_core s, ps))
  | Fail _ => Some None
  | Err => None
  | Fuel => None
  end.

Definition same_core (s1 s2 : st) := st_core s1 = st_core s2.

(* the same, with Err and Fuel kept apart: used internally, implies equality of cores *)
Definition req (r1 r2 : res) : Prop :=
  match r1, r2 with
  | Ok s1 p1, Ok s2 p2 => same_core s1 s2 /\ p1 = p2
  | Fail _, Fail _ => True
  | Err, Err => True
  | Fuel, Fuel => True
  | _, _ => False
  end.

Lemma req_core r1 r2 : req r1 r2 -> core r1 = core r2.
Proof.
  destruct r1, r2; cbn; try contradiction; try reflexivity.
  intros [H ->]. unfold same_core in H. rewrite H. reflexivity.
Qed.

Lemma core_req r1 r2 : r1 <> Fuel -> r2 <> Fuel -> core r1 = core r2 -> req r1 r2.
Proof.
  destruct r1, r2; cbn; intros D1 D2 H; try discriminate; try congruence; try exact I.
  split; [unfold same_core; congruence|congruence].
Qed.

Lemma req_refl r : req r r.
Proof. destruct r; cbn; try exact I. split; reflexivity. Qed.

Lemma req_sym r1 r2 : req r1 r2 -> req r2 r1.
Proof.
  destruct r1, r2; cbn; try contradiction; try (intros; exact I).
  intros [H ->]. split; [symmetry; exact H|reflexivity].
Qed.

Lemma req_trans r1 r2 r3 : req r1 r2 -> req r2 r3 -> req r1 r3.
Proof.
  destruct r1, r2, r3; cbn; try contradiction; try (intros; exact I).
  intros [H ->] [H' ->]. split; [unfold same_core in *; congruence|reflexivity].
Qed.

Lemma req_fuel_l r : req Fuel r -> r = Fuel.
Proof. destruct r; cbn; try contradiction. reflexivity. Qed.

Lemma req_nofuel r1 r2 : req r1 r2 -> r2 <> Fuel -> r1 <> Fuel.
Proof. destruct r1, r2; cbn; try contradiction; congruence. Qed.

Lemma same_core_refl s : same_core s s.
Proof. reflexivity. Qed.
Lemma same_core_sym s1 s2 : same_core s1 s2 -> same_core s2 s1.
Proof. unfold same_core. congruence. Qed.
Lemma same_core_trans s1 s2 s3 : same_core s1 s2 -> same_core s2 s3 -> same_core s1 s3.
Proof. unfold same_core. congruence. Qed.

Lemma same_core_inv s1 s2 : same_core s1 s2 ->
  s_pos s1 = s_pos s2 /\ s_rest s1 = s_rest s2 /\ s_stk s1 = s_stk s2 /\ s_tags s1 = s_tags s2.
Proof. unfold same_core, st_core. intros H. inversion H. repeat split; reflexivity || assumption. Qed.

Lemma same_core_set_trk s1 s2 t1 t2 : same_core s1 s2 -> same_core (set_trk s1 t1) (set_trk s2 t2).
Proof. intros H. exact H. Qed.
Lemma same_core_set_trk_l s t : same_core (set_trk s t) s.
Proof. reflexivity. Qed.
Lemma same_core_set_trk_r s t : same_core s (set_trk s t).
Proof. reflexivity. Qed.

Lemma same_core_adv s1 s2 n r : same_core s1 s2 -> same_core (adv s1 n r) (adv s2 n r).
Proof.
  intros H. apply same_core_inv in H. destruct H as [A [B [C D]]].
  unfold same_core, st_core, adv. cbn. congruence.
Qed.
Lemma same_core_set_stk s1 s2 k : same_core s1 s2 -> same_core (set_stk s1 k) (set_stk s2 k).
Proof.
  intros H. apply same_core_inv in H. destruct H as [A [B [C D]]].
  unfold same_core, st_core, set_stk. cbn. congruence.
Qed.
Lemma same_core_set_tags s1 s2 k : same_core s1 s2 -> same_core (set_tags s1 k) (set_tags s2 k).
Proof.
  intros H. apply same_core_inv in H. destruct H as [A [B [C D]]].
  unfold same_core, st_core, set_tags. cbn. congruence.
Qed.
Lemma same_core_push_tag tag s1 s2 : same_core s1 s2 -> same_core (push_tag tag s1) (push_tag tag s2).
Proof.
  intros H. destruct tag; [|exact H]. cbn.
  destruct (same_core_inv _ _ H) as [A [B [C D]]]. rewrite D. apply same_core_set_tags. exact H.
Qed.
Lemma same_core_pop_tag tag s1 s2 : same_core s1 s2 -> same_core (pop_tag tag s1) (pop_tag tag s2).
Proof.
  intros H. destruct tag; [|exact H]. cbn.
  destruct (same_core_inv _ _ H) as [A [B [C D]]]. rewrite D. apply same_core_set_tags. exact H.
Qed.

(* ------------------------------------------------------------------------------------ *)
(* One simulation covering: tracker irrelevance, irrelevance of the context fields that   *)
(* only feed the tracker (c_rule, c_neg, c_sup), and grammar extension by unreferenced    *)
(* rules.                                                                                 *)
(* ------------------------------------------------------------------------------------ *)

(* predicates on expression nodes that only constrain the names of rule references *)
Definition refp (q : N -> bool) (x : expr) : bool :=
  match x with ERef m _ => q m | _ => true end.

Section Sim.
Variables g1 g2 : grammar.
Variable q : N -> bool.
Notation p := (refp q).
Hypothesis Hlk : forall n, q n = true -> lookup g1 n = lookup g2 n.
Hypothesis Hg : all_grammar p g2 = true.
Hypothesis Hse : skip_expr g1 = skip_expr g2.
Hypothesis Hsk : forall e, skip_expr g2 = Some e -> all_sub p e = true.

Definition sim_at (f : nat) : Prop :=
  forall c1 c2 t s1 s2, c_atom c1 = c_atom c2 -> same_core s1 s2 -> all_task p t = true ->
    req (run g1 f c1 t s1) (run g2 f c2 t s2).

Lemma skip_sim f : sim_at f -> forall c1 c2 s1 s2, c_atom c1 = c_atom c2 -> same_core s1 s2 ->
  req (skip_with g1 (fun c' e' => run g1 f c' (TEval e')) c1 s1)
      (skip_with g2 (fun c' e' => run g2 f c' (TEval e')) c2 s2).
Proof.
  intros IH c1 c2 s1 s2 Hc Hs. unfold skip_with. rewrite Hse, Hc.
  destruct (c_atom c2); try (cbn; split; [exact Hs|reflexivity]).
  destruct (skip_expr g2) as [e|]; [|cbn; split; [exact Hs|reflexivity]].
  apply IH; [reflexivity|exact Hs|cbn; apply Hsk; reflexivity].
Qed.

Ltac step IH :=
  match goal with
  | |- req (match run g1 ?f ?c1 ?t ?s1 with _ => _ end) (match run g2 ?f ?c2 ?t ?s2 with _ => _ end) =>
      let R := fresh "R" in
      assert (R : req (run g1 f c1 t s1) (run g2 f c2 t s2));
      [ apply IH
      | destruct (run g1 f c1 t s1), (run g2 f c2 t s2); cbn [req] in R |- *;
        try contradiction; try exact I ]
  | |- req (match skip_with g1 ?ev1 ?c1 ?s1 with _ => _ end) (match skip_with g2 ?ev2 ?c2 ?s2 with _ => _ end) =>
      let R := fresh "R" in
      assert (R : req (skip_with g1 ev1 c1 s1) (skip_with g2 ev2 c2 s2));
      [ apply skip_sim; [exact IH| |]
      | destruct (skip_with g1 ev1 c1 s1), (skip_with g2 ev2 c2 s2); cbn [req] in R |- *;
        try contradiction; try exact I ]
  end.

Lemma sim_all : forall f, sim_at f.
Proof.
  induction f as [|f IH]; intros c1 c2 t s1 s2 Hc Hs Ht; [exact I|].
  destruct (same_core_inv _ _ Hs) as [Ep [Er [Ek Eg]]].
  destruct t as [e|es|es|e]; cbn [all_task] in Ht.
  - destruct e; cbn [all_sub] in Ht;
      (apply andb_prop in Ht; destruct Ht as [Hp Ht]);
      cbn [run].
    + (* EStr *) rewrite Er. destruct (strip_prefix _ _); cbn [req]; [|exact I].
      split; [apply same_core_adv; exact Hs|reflexivity].
    + rewrite Er. destruct (strip_prefix_ci _ _); cbn [req]; [|exact I].
      split; [apply same_core_adv; exact Hs|reflexivity].
    + rewrite Er. destruct (s_rest s2); cbn [req]; [exact I|].
      destruct (_ && _); cbn [req]; [|exact I].
      split; [apply same_core_adv; exact Hs|reflexivity].
    + rewrite Er. destruct (s_rest s2); cbn [req]; [exact I|].
      split; [apply same_core_adv; exact Hs|reflexivity].
    + rewrite Ep. destruct (N.eqb _ _); cbn [req]; [|exact I].
      split; [exact Hs|reflexivity].
    + rewrite Er. destruct (s_rest s2); cbn [req]; [|exact I].
      split; [exact Hs|reflexivity].
    + rewrite Er. destruct (s_rest s2); cbn [req]; [exact I|].
      destruct (in_ranges _ _); cbn [req]; [|exact I].
      split; [apply same_core_adv; exact Hs|reflexivity].
    + (* ERef *) rewrite (Hlk n Hp).
      destruct (lookup g2 n) as [r|] eqn:EL; [|exact I].
      assert (B := all_grammar_lookup p g2 n r Hg EL).
      step IH.
      * unfold rule_ctx, body_atom. cbn [c_atom]. rewrite Hc. reflexivity.
      * apply same_core_push_tag. exact Hs.
      * exact B.
      * destruct R as [R ->]. unfold finish_rule.
        assert (V : visible c1 r = visible c2 r) by (unfold visible; rewrite Hc; reflexivity).
        rewrite V, Ep. destruct (same_core_inv _ _ R) as [Ep' [Er' [Ek' Eg']]].
        rewrite Ep', Eg'.
        destruct (r_silent r).
        -- cbn [req]. split; [apply same_core_pop_tag; exact R|reflexivity].
        -- destruct (visible c2 r); cbn [req];
             (split; [apply same_core_pop_tag; apply same_core_set_tags; exact R|reflexivity]).
    + (* ESeq *) apply IH; [exact Hc|exact Hs|exact Ht].
    + (* EAlt *) apply IH; [exact Hc|exact Hs|exact Ht].
    + (* EOpt *) step IH; [exact Hc|exact Hs|exact Ht| |].
      * exact R.
      * split; [apply same_core_set_trk; exact Hs|reflexivity].
    + (* EStar *) step IH; [exact Hc|exact Hs|exact Ht| |].
      * destruct R as [R ->]. step IH; [exact Hc|exact R|exact Ht|].
        destruct R0 as [R0 ->]. split; [exact R0|reflexivity].
      * split; [apply same_core_set_trk; exact Hs|reflexivity].
    + (* EPlus *) apply IH; [exact Hc|exact Hs|]. cbn. rewrite !Ht. reflexivity.
    + apply IH; [exact Hc|exact Hs|]. cbn [all_task]. apply all_list_repeat. exact Ht.
    + apply IH; [exact Hc|exact Hs|]. cbn [all_task].
      rewrite all_list_app, all_list_repeat by exact Ht. cbn. rewrite Ht. reflexivity.
    + apply IH; [exact Hc|exact Hs|]. cbn [all_task]. apply all_list_repeat. cbn. exact Ht.
    + apply IH; [exact Hc|exact Hs|]. cbn [all_task].
      rewrite all_list_app, !all_list_repeat; [reflexivity|cbn; exact Ht|exact Ht].
    + (* EAnd *) step IH; [exact Hc|exact Hs|exact Ht|].
      split; [apply same_core_set_trk; exact Hs|reflexivity].
    + (* ENot *) step IH; [exact Hc|exact Hs|exact Ht|].
      split; [apply same_core_set_trk; exact Hs|reflexivity].
    + (* EGrp *) step IH; [exact Hc|apply same_core_push_tag; exact Hs|exact Ht|].
      destruct R as [R ->]. split; [apply same_core_pop_tag; exact R|reflexivity].
    + (* EPush *) step IH; [exact Hc|exact Hs|exact Ht|].
      destruct R as [R ->]. destruct (same_core_inv _ _ R) as [Ep' [Er' [Ek' Eg']]].
      rewrite Ep, Er, Ep', Ek'. split; [apply same_core_set_stk; exact R|reflexivity].
    + (* EPushLit *) cbn [req]. rewrite Ek. split; [apply same_core_set_stk; exact Hs|reflexivity].
    + (* EPeek *) rewrite Ek, Er. destruct (s_stk s2); cbn [req]; [exact I|].
      destruct (strip_prefix _ _); cbn [req]; [|exact I].
      split; [apply same_core_adv; exact Hs|reflexivity].
    + rewrite Ek, Er. destruct (match_all _ _ _) as [[r n]|]; cbn [req]; [|exact I].
      split; [apply same_core_adv; exact Hs|reflexivity].
    + rewrite Ek, Er. destruct (match_all _ _ _) as [[r n]|]; cbn [req]; [|exact I].
      split; [apply same_core_adv; exact Hs|reflexivity].
    + (* EPop *) rewrite Ek, Er. destruct (s_stk s2); cbn [req]; [exact I|].
      destruct (strip_prefix _ _); cbn [req]; [|exact I].
      split; [apply same_core_set_stk; apply same_core_adv; exact Hs|reflexivity].
    + rewrite Ek, Er. destruct (match_all _ _ _) as [[r n]|]; cbn [req]; [|exact I].
      split; [apply same_core_set_stk; apply same_core_adv; exact Hs|reflexivity].
    + (* EDrop *) rewrite Ek. destruct (s_stk s2); cbn [req]; [exact I|].
      split; [apply same_core_set_stk; exact Hs|reflexivity].
    + (* ESkipUntil *) cbn [req]. rewrite Er. split; [apply same_core_adv; exact Hs|reflexivity].
  - cbn [run]. destruct es as [|e1 es']; [cbn [req]; split; [exact Hs|reflexivity]|].
    cbn [all_list forallb] in Ht. apply andb_prop in Ht. destruct Ht as [H1 H2].
    step IH; [exact Hc|exact Hs|exact H1|].
    destruct R as [R ->].
    destruct es' as [|e2 es'']; [cbn [req]; split; [exact R|reflexivity]|].
    step IH; [exact Hc|exact R|].
    destruct R0 as [R0 ->].
    step IH; [exact Hc|exact R0|exact H2|].
    destruct R1 as [R1 ->]. split; [exact R1|reflexivity].
  - cbn [run]. destruct es as [|e1 es']; [exact I|].
    cbn [all_list forallb] in Ht. apply andb_prop in Ht. destruct Ht as [H1 H2].
    step IH; [exact Hc|exact Hs|exact H1| |].
    + exact R.
    + apply IH; [exact Hc|apply same_core_set_trk; exact Hs|exact H2].
  - cbn [run]. step IH; [exact Hc|exact Hs|].
    destruct R as [R ->].
    step IH; [exact Hc|exact R|exact Ht| |].
    + destruct R0 as [R0 ->]. step IH; [exact Hc|exact R0|exact Ht|].
      destruct R1 as [R1 ->]. split; [exact R1|reflexivity].
    + split; [apply same_core_set_trk; exact Hs|reflexivity].
Qed.

End Sim.

(* instances of the simulation *)
Definition qtrue (n : N) : bool := true.

Lemma all_sub_true : forall e, all_sub (refp qtrue) e = true.
Proof.
  fix IH 1. intros e.
  destruct e; cbn [all_sub refp qtrue andb]; try reflexivity; try apply IH.
  - induction es as [|x es IHes]; [reflexivity|]. rewrite IH. exact IHes.
  - induction es as [|x es IHes]; [reflexivity|]. rewrite IH. exact IHes.
Qed.

Lemma all_list_true es : all_list (refp qtrue) es = true.
Proof. induction es as [|x es IH]; [reflexivity|]. cbn. rewrite all_sub_true. exact IH. Qed.

Lemma all_task_true t : all_task (refp qtrue) t = true.
Proof. destruct t; cbn; try apply all_sub_true; apply all_list_true. Qed.

Lemma all_grammar_true g : all_grammar (refp qtrue) g = true.
Proof. induction g as [|r g IH]; [reflexivity|]. cbn. rewrite all_sub_true. exact IH. Qed.

(* same grammar: states up to the tracker, contexts up to everything but atomicity *)
Theorem run_core_ctx : forall g f c1 c2 t s1 s2, c_atom c1 = c_atom c2 -> same_core s1 s2 ->
  req (run g f c1 t s1) (run g f c2 t s2).
Proof.
  intros g f c1 c2 t s1 s2 Hc Hs.
  apply (sim_all g g qtrue); try assumption.
  - intros; reflexivity.
  - apply all_grammar_true.
  - reflexivity.
  - intros; apply all_sub_true.
  - apply all_task_true.
Qed.

Lemma skip_core_ctx : forall g f c1 c2 s1 s2, c_atom c1 = c_atom c2 -> same_core s1 s2 ->
  req (skip_with g (fun c' e' => run g f c' (TEval e')) c1 s1)
      (skip_with g (fun c' e' => run g f c' (TEval e')) c2 s2).
Proof.
  intros g f c1 c2 s1 s2 Hc Hs.
  apply (skip_sim g g qtrue); try assumption.
  - reflexivity.
  - intros; apply all_sub_true.
  - intros c1' c2' t s1' s2' Hc' Hs' _. apply run_core_ctx; assumption.
Qed.

Section Equiv.
Variable g : grammar.

(* T1 *)
Theorem trk_irrelevant4 : forall f c t s1 s2, same_core s1 s2 ->
  req (run g f c t s1) (run g f c t s2).
Proof. intros. apply run_core_ctx; [reflexivity|assumption]. Qed.

Theorem trk_irrelevant : forall f c t s1 s2, same_core s1 s2 ->
  core (run g f c t s1) = core (run g f c t s2).
Proof. intros. apply req_core. apply trk_irrelevant4. assumption. Qed.

(* the context fields c_rule, c_neg, c_sup only feed the tracker *)
Theorem ctx_irrelevant : forall f c1 c2 t s1 s2, c_atom c1 = c_atom c2 -> same_core s1 s2 ->
  core (run g f c1 t s1) = core (run g f c2 t s2).
Proof. intros. apply req_core. apply run_core_ctx; assumption. Qed.

(* ---------- fuel-free view ---------- *)

Definition skips (c : ctx) (s : st) (r : res) : Prop :=
  exists f, skip_with g (fun c' e' => run g f c' (TEval e')) c s = r /\ r <> Fuel.

Lemma skipw_mono f f' c s r :
  skip_with g (fun c' e' => run g f c' (TEval e')) c s = r -> r <> Fuel -> f <= f' ->
  skip_with g (fun c' e' => run g f' c' (TEval e')) c s = r.
Proof. intros H D L. eapply skip_mono; [apply mono_all|exact H|exact D|exact L]. Qed.

Lemma skips_det c s r1 r2 : skips c s r1 -> skips c s r2 -> r1 = r2.
Proof.
  intros [f1 [H1 D1]] [f2 [H2 D2]].
  assert (A := skipw_mono f1 (max f1 f2) c s r1 H1 D1 (Nat.le_max_l _ _)).
  assert (B := skipw_mono f2 (max f1 f2) c s r2 H2 D2 (Nat.le_max_r _ _)).
  congruence.
Qed.

Lemma runs_core c1 c2 t s1 s2 r : c_atom c1 = c_atom c2 -> same_core s1 s2 ->
  runs g c1 t s1 r -> exists r', runs g c2 t s2 r' /\ req r' r.
Proof.
  intros Hc Hs [f [H D]]. assert (R := run_core_ctx g f c2 c1 t s2 s1 (eq_sym Hc) (same_core_sym _ _ Hs)).
  rewrite H in R. exists (run g f c2 t s2). split; [|exact R].
  exists f. split; [reflexivity|]. eapply req_nofuel; eassumption.
Qed.

Lemma skips_core c1 c2 s1 s2 r : c_atom c1 = c_atom c2 -> same_core s1 s2 ->
  skips c1 s1 r -> exists r', skips c2 s2 r' /\ req r' r.
Proof.
  intros Hc Hs [f [H D]]. assert (R := skip_core_ctx g f c2 c1 s2 s1 (eq_sym Hc) (same_core_sym _ _ Hs)).
  rewrite H in R. eexists. split; [|exact R].
  exists f. split; [reflexivity|]. eapply req_nofuel; eassumption.
Qed.

(* a constructor that makes exactly one recursive call and post-processes its result *)
Lemma runs_wrap c t s c' t' s' (F : res -> res) :
  (forall f, run g (S f) c t s = F (run g f c' t' s')) -> F Fuel = Fuel ->
  forall r, runs g c t s r <-> (exists x, runs g c' t' s' x /\ r = F x /\ r <> Fuel).
Proof.
  intros E EF r. split.
  - intros [f [H D]]. destruct f as [|f]; [cbn in H; congruence|].
    rewrite E in H. exists (run g f c' t' s'). split; [|split; [symmetry; exact H|exact D]].
    exists f. split; [reflexivity|]. intros X. rewrite X, EF in H. congruence.
  - intros [x [[f [H D]] [-> D']]]. exists (S f). rewrite E, H. split; [reflexivity|exact D'].
Qed.

Lemma runs_seq_nil c s r : runs g c (TSeq []) s r <-> r = Ok s [].
Proof.
  split.
  - intros [f [H D]]. destruct f; [cbn in H; congruence|]. cbn in H. congruence.
  - intros ->. exists 1. split; [reflexivity|discriminate].
Qed.

Lemma runs_seq_one c e s r : runs g c (TSeq [e]) s r <-> evals g c e s r.
Proof. unfold evals. apply runs_step. intros f. apply seq_last_no_trivia. Qed.

Definition addp (p : list pair) (z : res) : res :=
  match z with Ok s3 p3 => Ok s3 (p ++ p3) | w => w end.

Lemma runs_seq_cons c e1 e2 es s r :
  runs g c (TSeq (e1 :: e2 :: es)) s r <->
  exists x, evals g c e1 s x /\
    match x with
    | Ok s1 p1 =>
        exists y, skips c s1 y /\
          match y with
          | Ok s2 pw => exists z, runs g c (TSeq (e2 :: es)) s2 z /\ r = addp p1 (addp pw z)
          | w => r = w
          end
    | w => r = w
    end.
Proof.
  split.
  - intros [f [H D]]. destruct f as [|f]; [cbn in H; congruence|].
    rewrite seq_trivia_placement in H.
    destruct (run g f c (TEval e1) s) as [s1 p1|t| |] eqn:E1.
    + exists (Ok s1 p1). split; [exists f; split; [exact E1|discriminate]|].
      destruct (skip_with g _ c s1) as [s2 pw|t| |] eqn:E2.
      * exists (Ok s2 pw). split; [exists f; split; [exact E2|discriminate]|].
        destruct (run g f c (TSeq (e2 :: es)) s2) as [s3 p3|t| |] eqn:E3.
        -- exists (Ok s3 p3). split; [exists f; split; [exact E3|discriminate]|]. cbn. congruence.
        -- exists (Fail t). split; [exists f; split; [exact E3|discriminate]|]. cbn. congruence.
        -- exists Err. split; [exists f; split; [exact E3|discriminate]|]. cbn. congruence.
        -- congruence.
      * exists (Fail t). split; [exists f; split; [exact E2|discriminate]|]. congruence.
      * exists Err. split; [exists f; split; [exact E2|discriminate]|]. congruence.
      * congruence.
    + exists (Fail t). split; [exists f; split; [exact E1|discriminate]|]. congruence.
    + exists Err. split; [exists f; split; [exact E1|discriminate]|]. congruence.
    + congruence.
  - intros [x [[f1 [E1 D1]] K]].
    destruct x as [s1 p1|t| |]; try congruence.
    + destruct K as [y [[f2 [E2 D2]] K]].
      destruct y as [s2 pw|t| |]; try congruence.
      * destruct K as [z [[f3 [E3 D3]] ->]].
        exists (S (f1 + f2 + f3)). rewrite seq_trivia_placement.
        rewrite (run_mono g f1 (f1 + f2 + f3) _ _ _ _ E1 D1) by lia.
        rewrite (skipw_mono f2 (f1 + f2 + f3) _ _ _ E2 D2) by lia.
        rewrite (run_mono g f3 (f1 + f2 + f3) _ _ _ _ E3 D3) by lia.
        split; [destruct z; reflexivity|destruct z; cbn; congruence].
      * subst r. exists (S (f1 + f2)). rewrite seq_trivia_placement.
        rewrite (run_mono g f1 (f1 + f2) _ _ _ _ E1 D1) by lia.
        rewrite (skipw_mono f2 (f1 + f2) _ _ _ E2 D2) by lia.
        split; [reflexivity|discriminate].
      * subst r. exists (S (f1 + f2)). rewrite seq_trivia_placement.
        rewrite (run_mono g f1 (f1 + f2) _ _ _ _ E1 D1) by lia.
        rewrite (skipw_mono f2 (f1 + f2) _ _ _ E2 D2) by lia.
        split; [reflexivity|discriminate].
    + subst r. exists (S f1). rewrite seq_trivia_placement, E1. split; [reflexivity|discriminate].
    + subst r. exists (S f1). rewrite seq_trivia_placement, E1. split; [reflexivity|discriminate].
Qed.

Lemma runs_alt_nil c s r : runs g c (TAlt []) s r <-> r = Fail (s_trk s).
Proof.
  split.
  - intros [f [H D]]. destruct f; [cbn in H; congruence|]. cbn in H. congruence.
  - intros ->. exists 1. split; [reflexivity|discriminate].
Qed.

Lemma runs_alt_cons c e1 es s r :
  runs g c (TAlt (e1 :: es)) s r <->
  exists x, evals g c e1 s x /\
    match x with
    | Fail t => runs g c (TAlt es) (set_trk s t) r
    | w => r = w
    end.
Proof.
  split.
  - intros [f [H D]]. destruct f as [|f]; [cbn in H; congruence|]. cbn [run] in H.
    destruct (run g f c (TEval e1) s) as [s1 p1|t| |] eqn:E1.
    + exists (Ok s1 p1). split; [exists f; split; [exact E1|discriminate]|]. congruence.
    + exists (Fail t). split; [exists f; split; [exact E1|discriminate]|].
      exists f. split; assumption.
    + exists Err. split; [exists f; split; [exact E1|discriminate]|]. congruence.
    + congruence.
  - intros [x [[f1 [E1 D1]] K]].
    destruct x as [s1 p1|t| |]; try congruence.
    + subst r. exists (S f1). cbn [run]. rewrite E1. split; [reflexivity|discriminate].
    + destruct K as [f2 [E2 D2]]. exists (S (f1 + f2)). cbn [run].
      rewrite (run_mono g f1 (f1 + f2) _ _ _ _ E1 D1) by lia.
      rewrite (run_mono g f2 (f1 + f2) _ _ _ _ E2 D2) by lia.
      split; [reflexivity|exact D2].
    + subst r. exists (S f1). cbn [run]. rewrite E1. split; [reflexivity|discriminate].
Qed.

Lemma runs_star c e s r :
  runs g c (TStar e) s r <->
  exists y, skips c s y /\
    match y with
    | Ok s2 pw =>
        exists x, evals g c e s2 x /\
          match x with
          | Ok s3 p3 => exists z, runs g c (TStar e) s3 z /\ r = addp pw (addp p3 z)
          | Fail t => r = Ok (set_trk s t) []
          | w => r = w
          end
    | w => r = w
    end.
Proof.
  split.
  - intros [f [H D]]. destruct f as [|f]; [cbn in H; congruence|]. cbn [run] in H.
    destruct (skip_with g _ c s) as [s2 pw|t| |] eqn:E2.
    + exists (Ok s2 pw). split; [exists f; split; [exact E2|discriminate]|].
      destruct (run g f c (TEval e) s2) as [s3 p3|t| |] eqn:E1.
      * exists (Ok s3 p3). split; [exists f; split; [exact E1|discriminate]|].
        destruct (run g f c (TStar e) s3) as [s4 p4|t| |] eqn:E3.
        -- exists (Ok s4 p4). split; [exists f; split; [exact E3|discriminate]|]. cbn. congruence.
        -- exists (Fail t). split; [exists f; split; [exact E3|discriminate]|]. cbn. congruence.
        -- exists Err. split; [exists f; split; [exact E3|discriminate]|]. cbn. congruence.
        -- congruence.
      * exists (Fail t). split; [exists f; split; [exact E1|discriminate]|]. congruence.
      * exists Err. split; [exists f; split; [exact E1|discriminate]|]. congruence.
      * congruence.
    + exists (Fail t). split; [exists f; split; [exact E2|discriminate]|]. congruence.
    + exists Err. split; [exists f; split; [exact E2|discriminate]|]. congruence.
    + congruence.
  - intros [y [[f2 [E2 D2]] K]].
    destruct y as [s2 pw|t| |]; try congruence.
    + destruct K as [x [[f1 [E1 D1]] K]].
      destruct x as [s3 p3|t| |]; try congruence.
      * destruct K as [z [[f3 [E3 D3]] ->]].
        exists (S (f1 + f2 + f3)). cbn [run].
        rewrite (skipw_mono f2 (f1 + f2 + f3) _ _ _ E2 D2) by lia.
        rewrite (run_mono g f1 (f1 + f2 + f3) _ _ _ _ E1 D1) by lia.
        rewrite (run_mono g f3 (f1 + f2 + f3) _ _ _ _ E3 D3) by lia.
        split; [destruct z; reflexivity|destruct z; cbn; congruence].
      * subst r. exists (S (f1 + f2)). cbn [run].
        rewrite (skipw_mono f2 (f1 + f2) _ _ _ E2 D2) by lia.
        rewrite (run_mono g f1 (f1 + f2) _ _ _ _ E1 D1) by lia.
        split; [reflexivity|discriminate].
      * subst r. exists (S (f1 + f2)). cbn [run].
        rewrite (skipw_mono f2 (f1 + f2) _ _ _ E2 D2) by lia.
        rewrite (run_mono g f1 (f1 + f2) _ _ _ _ E1 D1) by lia.
        split; [reflexivity|discriminate].
    + subst r. exists (S f2). cbn [run]. rewrite E2. split; [reflexivity|discriminate].
    + subst r. exists (S f2). cbn [run]. rewrite E2. split; [reflexivity|discriminate].
Qed.

Lemma evals_star c e s r :
  evals g c (EStar e) s r <->
  exists x, evals g c e s x /\
    match x with
    | Ok s1 p1 => exists z, runs g c (TStar e) s1 z /\ r = addp p1 z
    | Fail t => r = Ok (set_trk s t) []
    | w => r = w
    end.
Proof.
  split.
  - intros [f [H D]]. destruct f as [|f]; [cbn in H; congruence|]. cbn [run] in H.
    destruct (run g f c (TEval e) s) as [s1 p1|t| |] eqn:E1.
    + exists (Ok s1 p1). split; [exists f; split; [exact E1|discriminate]|].
      destruct (run g f c (TStar e) s1) as [s4 p4|t| |] eqn:E3.
      * exists (Ok s4 p4). split; [exists f; split; [exact E3|discriminate]|]. cbn. congruence.
      * exists (Fail t). split; [exists f; split; [exact E3|discriminate]|]. cbn. congruence.
      * exists Err. split; [exists f; split; [exact E3|discriminate]|]. cbn. congruence.
      * congruence.
    + exists (Fail t). split; [exists f; split; [exact E1|discriminate]|]. congruence.
    + exists Err. split; [exists f; split; [exact E1|discriminate]|]. congruence.
    + congruence.
  - intros [x [[f1 [E1 D1]] K]].
    destruct x as [s3 p3|t| |]; try congruence.
    + destruct K as [z [[f3 [E3 D3]] ->]].
      exists (S (f1 + f3)). cbn [run].
      rewrite (run_mono g f1 (f1 + f3) _ _ _ _ E1 D1) by lia.
      rewrite (run_mono g f3 (f1 + f3) _ _ _ _ E3 D3) by lia.
      split; [destruct z; reflexivity|destruct z; cbn; congruence].
    + subst r. exists (S f1). cbn [run]. rewrite E1. split; [reflexivity|discriminate].
    + subst r. exists (S f1). cbn [run]. rewrite E1. split; [reflexivity|discriminate].
Qed.


Lemma runs_wrap' c t s c' t' s' (F : res -> res) :
  (forall f, run g (S f) c t s = F (run g f c' t' s')) -> F Fuel = Fuel ->
  (forall x, x <> Fuel -> F x <> Fuel) ->
  forall r, runs g c t s r <-> (exists x, runs g c' t' s' x /\ r = F x).
Proof.
  intros E EF NF r. rewrite (runs_wrap c t s c' t' s' F E EF). split.
  - intros [x [H [A B]]]. exists x. split; assumption.
  - intros [x [H A]]. exists x. split; [exact H|split; [exact A|]].
    subst r. apply NF. destruct H as [f [_ D]]. exact D.
Qed.

(* ---------- semantic equivalence ---------- *)

Definition sem_le (e1 e2 : expr) : Prop :=
  forall c s r, evals g c e1 s r -> exists r', evals g c e2 s r' /\ core r' = core r.
Definition sem_eq (e1 e2 : expr) : Prop := sem_le e1 e2 /\ sem_le e2 e1.

Lemma runs_nofuel c t s r : runs g c t s r -> r <> Fuel.
Proof. intros [f [_ D]]. exact D. Qed.

Lemma sem_le_core e1 e2 : sem_le e1 e2 -> forall c s s' r, same_core s s' ->
  evals g c e1 s r -> exists r', evals g c e2 s' r' /\ req r' r.
Proof.
  intros H c s s' r Hs Hev. destruct (H c s r Hev) as [r1 [H1 C1]].
  assert (R1 : req r1 r).
  { apply core_req; [eapply runs_nofuel; exact H1|eapply runs_nofuel; exact Hev|exact C1]. }
  destruct (runs_core c c (TEval e2) s s' r1 eq_refl Hs H1) as [r' [H2 R2]].
  exists r'. split; [exact H2|eapply req_trans; eassumption].
Qed.

Lemma sem_le_refl e : sem_le e e.
Proof. intros c s r H. exists r. split; [exact H|reflexivity]. Qed.
Lemma sem_eq_refl e : sem_eq e e.
Proof. split; apply sem_le_refl. Qed.
Lemma sem_eq_sym e1 e2 : sem_eq e1 e2 -> sem_eq e2 e1.
Proof. intros [A B]. split; assumption. Qed.
Lemma sem_le_trans e1 e2 e3 : sem_le e1 e2 -> sem_le e2 e3 -> sem_le e1 e3.
Proof.
  intros A B c s r H. destruct (A c s r H) as [r1 [H1 C1]]. destruct (B c s r1 H1) as [r2 [H2 C2]].
  exists r2. split; [exact H2|congruence].
Qed.
Lemma sem_eq_trans e1 e2 e3 : sem_eq e1 e2 -> sem_eq e2 e3 -> sem_eq e1 e3.
Proof. intros [A B] [C D]. split; eapply sem_le_trans; eassumption. Qed.

(* exact agreement is the simplest way to be equivalent *)
Lemma sem_eq_of_iff e1 e2 : (forall c s r, evals g c e1 s r <-> evals g c e2 s r) -> sem_eq e1 e2.
Proof.
  intros H. split; intros c s r Hev; exists r; (split; [apply H; exact Hev|reflexivity]).
Qed.

(* ---------- T8, one-call constructors ---------- *)

Lemma cong_wrap (K : expr -> expr) (cf : ctx -> ctx) (sf : st -> st)
  (F : expr -> ctx -> st -> res -> res) :
  (forall e f c s, run g (S f) c (TEval (K e)) s = F e c s (run g f (cf c) (TEval e) (sf s))) ->
  (forall e c s, F e c s Fuel = Fuel) ->
  (forall e c s x, x <> Fuel -> F e c s x <> Fuel) ->
  (forall e e' c s x x', req x' x -> req (F e' c s x') (F e c s x)) ->
  forall e e', sem_le e e' -> sem_le (K e) (K e').
Proof.
  intros E EF NF RF e e' Hle c s r Hev.
  apply (runs_wrap' c (TEval (K e)) s (cf c) (TEval e) (sf s) (F e c s)) in Hev;
    [|intros f; apply E|apply EF|apply NF].
  destruct Hev as [x [Hx ->]].
  destruct (sem_le_core e e' Hle (cf c) (sf s) (sf s) x (same_core_refl _) Hx) as [x' [Hx' R]].
  exists (F e' c s x'). split.
  - apply (runs_wrap' c (TEval (K e')) s (cf c) (TEval e') (sf s) (F e' c s));
      [intros f; apply E|apply EF|apply NF|].
    exists x'. split; [exact Hx'|reflexivity].
  - apply req_core. apply RF. exact R.
Qed.

Lemma cong_opt_le e e' : sem_le e e' -> sem_le (EOpt e) (EOpt e').
Proof.
  apply (cong_wrap EOpt (fun c => c) (fun s => s)
           (fun _ c s x => match x with Fail t => Ok (set_trk s t) [] | w => w end)).
  - intros e0 f c s. cbn [run]. destruct (run g f _ (TEval e0) _); reflexivity.
  - reflexivity.
  - intros _ c s x D. destruct x; congruence.
  - intros _ _ c s x x' R. destruct x, x'; cbn in R |- *; try contradiction; try exact I; try exact R.
    split; reflexivity.
Qed.

Lemma cong_and_le e e' : sem_le e e' -> sem_le (EAnd e) (EAnd e').
Proof.
  apply (cong_wrap EAnd (fun c => c) (fun s => s)
           (fun _ c s x => match x with Ok s1 _ => Ok (set_trk s (s_trk s1)) [] | w => w end)).
  - intros e0 f c s. cbn [run]. destruct (run g f _ (TEval e0) _); reflexivity.
  - reflexivity.
  - intros _ c s x D. destruct x; congruence.
  - intros _ _ c s x x' R. destruct x, x'; cbn in R |- *; try contradiction; try exact I.
    split; reflexivity.
Qed.

Lemma cong_not_le e e' : sem_le e e' -> sem_le (ENot e) (ENot e').
Proof.
  apply (cong_wrap ENot neg_ctx (fun s => s)
           (fun e c s x =>
              match x with
              | Ok s1 _ =>
                  Fail (record (neg_ctx c) true (match e with ERef n _ => n | _ => c_rule c end)
                          (set_trk s (s_trk s1)))
              | Fail t => Ok (set_trk s t) []
              | w => w
              end)).
  - intros e0 f c s. cbn [run]. destruct (run g f _ (TEval e0) _); reflexivity.
  - reflexivity.
  - intros a c s x D. destruct x; congruence.
  - intros a b c s x x' R. destruct x, x'; cbn in R |- *; try contradiction; try exact I.
    split; reflexivity.
Qed.

Lemma cong_grp_le tag e e' : sem_le e e' -> sem_le (EGrp e tag) (EGrp e' tag).
Proof.
  apply (cong_wrap (fun e => EGrp e tag) (fun c => c) (push_tag tag)
           (fun _ c s x => match x with Ok s1 ps => Ok (pop_tag tag s1) ps | w => w end)).
  - intros e0 f c s. cbn [run]. destruct (run g f _ (TEval e0) _); reflexivity.
  - reflexivity.
  - intros _ c s x D. destruct x; congruence.
  - intros _ _ c s x x' R. destruct x, x'; cbn in R |- *; try contradiction; try exact I.
    destruct R as [R ->]. split; [apply same_core_pop_tag; exact R|reflexivity].
Qed.

Lemma cong_push_le e e' : sem_le e e' -> sem_le (EPush e) (EPush e').
Proof.
  apply (cong_wrap EPush (fun c => c) (fun s => s)
           (fun _ c s x =>
              match x with
              | Ok s1 ps =>
                  Ok (set_stk s1 (firstn (N.to_nat (s_pos s1 - s_pos s)) (s_rest s) :: s_stk s1)) ps
              | w => w
              end)).
  - intros e0 f c s. cbn [run]. destruct (run g f _ (TEval e0) _); reflexivity.
  - reflexivity.
  - intros _ c s x D. destruct x; congruence.
  - intros _ _ c s x x' R. destruct x, x'; cbn in R |- *; try contradiction; try exact I.
    destruct R as [R ->]. destruct (same_core_inv _ _ R) as [Ep [Er [Ek Eg]]].
    rewrite Ep, Ek. split; [apply same_core_set_stk; exact R|reflexivity].
Qed.

Theorem cong_opt : forall e e', sem_eq e e' -> sem_eq (EOpt e) (EOpt e').
Proof. intros e e' [A B]. split; apply cong_opt_le; assumption. Qed.
Theorem cong_and : forall e e', sem_eq e e' -> sem_eq (EAnd e) (EAnd e').
Proof. intros e e' [A B]. split; apply cong_and_le; assumption. Qed.
Theorem cong_not : forall e e', sem_eq e e' -> sem_eq (ENot e) (ENot e').
Proof. intros e e' [A B]. split; apply cong_not_le; assumption. Qed.
Theorem cong_grp : forall tag e e', sem_eq e e' -> sem_eq (EGrp e tag) (EGrp e' tag).
Proof. intros tag e e' [A B]. split; apply cong_grp_le; assumption. Qed.
Theorem cong_push : forall e e', sem_eq e e' -> sem_eq (EPush e) (EPush e').
Proof. intros e e' [A B]. split; apply cong_push_le; assumption. Qed.


(* ---------- T8, sequences, choices, repetitions ---------- *)

Lemma req_addp p z' z : req z' z -> req (addp p z') (addp p z).
Proof.
  destruct z', z; cbn; try contradiction; try (intros; exact I).
  intros [R ->]. split; [exact R|reflexivity].
Qed.

Lemma req_ok_inv r s p : req r (Ok s p) -> exists s', r = Ok s' p /\ same_core s' s.
Proof. destruct r; cbn; try contradiction. intros [R ->]. eexists. split; [reflexivity|exact R]. Qed.
Lemma req_fail_inv r t : req r (Fail t) -> exists t', r = Fail t'.
Proof. destruct r; cbn; try contradiction. intros _. eexists. reflexivity. Qed.
Lemma req_err_inv r : req r Err -> r = Err.
Proof. destruct r; cbn; try contradiction. reflexivity. Qed.

Lemma seq_le_core : forall es es', Forall2 sem_le es es' ->
  forall c s s' r, same_core s s' -> runs g c (TSeq es) s r ->
  exists r', runs g c (TSeq es') s' r' /\ req r' r.
Proof.
  induction 1 as [|e1 e1' es es' H1 HF IH]; intros c s s' r Hs Hr.
  - apply runs_seq_nil in Hr. subst r. exists (Ok s' []). split; [apply runs_seq_nil; reflexivity|].
    split; [apply same_core_sym; exact Hs|reflexivity].
  - destruct HF as [|e2 e2' es2 es2' H2 HF].
    + apply runs_seq_one in Hr. destruct (sem_le_core _ _ H1 c s s' r Hs Hr) as [r' [A B]].
      exists r'. split; [apply runs_seq_one; exact A|exact B].
    + assert (HF' : Forall2 sem_le (e2 :: es2) (e2' :: es2')) by (constructor; assumption).
      apply runs_seq_cons in Hr. destruct Hr as [x [Hx K]].
      destruct (sem_le_core _ _ H1 c s s' x Hs Hx) as [x' [Hx' Rx]].
      destruct x as [s1 p1|t| |].
      * destruct (req_ok_inv _ _ _ Rx) as [s1' [-> Rs1]].
        destruct K as [y [Hy K]].
        destruct (skips_core c c s1 s1' y eq_refl (same_core_sym _ _ Rs1) Hy) as [y' [Hy' Ry]].
        destruct y as [s2 pw|t| |].
        -- destruct (req_ok_inv _ _ _ Ry) as [s2' [-> Rs2]].
           destruct K as [z [Hz ->]].
           destruct (IH c s2 s2' z (same_core_sym _ _ Rs2) Hz) as [z' [Hz' Rz]].
           exists (addp p1 (addp pw z')). split.
           ++ apply runs_seq_cons. exists (Ok s1' p1). split; [exact Hx'|].
              exists (Ok s2' pw). split; [exact Hy'|]. exists z'. split; [exact Hz'|reflexivity].
           ++ apply req_addp. apply req_addp. exact Rz.
        -- subst r. destruct (req_fail_inv _ _ Ry) as [t' ->]. exists (Fail t'). split; [|exact I].
           apply runs_seq_cons. exists (Ok s1' p1). split; [exact Hx'|].
           exists (Fail t'). split; [exact Hy'|reflexivity].
        -- subst r. apply req_err_inv in Ry. subst y'. exists Err. split; [|exact I].
           apply runs_seq_cons. exists (Ok s1' p1). split; [exact Hx'|].
           exists Err. split; [exact Hy'|reflexivity].
        -- exfalso. destruct Hy as [fy [Ey Dy]]. congruence.
      * subst r. destruct (req_fail_inv _ _ Rx) as [t' ->]. exists (Fail t'). split; [|exact I].
        apply runs_seq_cons. exists (Fail t'). split; [exact Hx'|reflexivity].
      * subst r. apply req_err_inv in Rx. subst x'. exists Err. split; [|exact I].
        apply runs_seq_cons. exists Err. split; [exact Hx'|reflexivity].
      * exfalso. eapply runs_nofuel; [exact Hx|reflexivity].
Qed.

Lemma alt_le_core : forall es es', Forall2 sem_le es es' ->
  forall c s s' r, same_core s s' -> runs g c (TAlt es) s r ->
  exists r', runs g c (TAlt es') s' r' /\ req r' r.
Proof.
  induction 1 as [|e1 e1' es es' H1 HF IH]; intros c s s' r Hs Hr.
  - apply runs_alt_nil in Hr. subst r. exists (Fail (s_trk s')). split; [apply runs_alt_nil; reflexivity|exact I].
  - apply runs_alt_cons in Hr. destruct Hr as [x [Hx K]].
    destruct (sem_le_core _ _ H1 c s s' x Hs Hx) as [x' [Hx' Rx]].
    destruct x as [s1 p1|t| |].
    + subst r. destruct (req_ok_inv _ _ _ Rx) as [s1' [-> Rs1]]. exists (Ok s1' p1).
      split; [|split; [exact Rs1|reflexivity]].
      apply runs_alt_cons. exists (Ok s1' p1). split; [exact Hx'|reflexivity].
    + destruct (req_fail_inv _ _ Rx) as [t' ->].
      destruct (IH c (set_trk s t) (set_trk s' t') r (same_core_set_trk _ _ _ _ Hs) K) as [r' [Hr' Rr]].
      exists r'. split; [|exact Rr].
      apply runs_alt_cons. exists (Fail t'). split; [exact Hx'|exact Hr'].
    + subst r. apply req_err_inv in Rx. subst x'. exists Err. split; [|exact I].
      apply runs_alt_cons. exists Err. split; [exact Hx'|reflexivity].
    + exfalso. eapply runs_nofuel; [exact Hx|reflexivity].
Qed.

Lemma tstar_le_core e e' : sem_le e e' ->
  forall f c s s' r, same_core s s' -> run g f c (TStar e) s = r -> r <> Fuel ->
  exists r', runs g c (TStar e') s' r' /\ req r' r.
Proof.
  intros Hle. induction f as [|f IH]; intros c s s' r Hs H D; [cbn in H; congruence|].
  cbn [run] in H.
  destruct (skip_with g _ c s) as [s2 pw|t| |] eqn:E2.
  - assert (Hy : skips c s (Ok s2 pw)) by (exists f; split; [exact E2|discriminate]).
    destruct (skips_core c c s s' _ eq_refl Hs Hy) as [y' [Hy' Ry]].
    destruct (req_ok_inv _ _ _ Ry) as [s2' [-> Rs2]].
    destruct (run g f c (TEval e) s2) as [s3 p3|t| |] eqn:E1.
    + assert (Hx : evals g c e s2 (Ok s3 p3)) by (exists f; split; [exact E1|discriminate]).
      destruct (sem_le_core _ _ Hle c s2 s2' _ (same_core_sym _ _ Rs2) Hx) as [x' [Hx' Rx]].
      destruct (req_ok_inv _ _ _ Rx) as [s3' [-> Rs3]].
      destruct (run g f c (TStar e) s3) as [s4 p4|t| |] eqn:E3; [| | |congruence].
      * destruct (IH c s3 s3' _ (same_core_sym _ _ Rs3) E3) as [z' [Hz' Rz]]; [discriminate|].
        exists (addp pw (addp p3 z')). split.
        -- apply runs_star. exists (Ok s2' pw). split; [exact Hy'|].
           exists (Ok s3' p3). split; [exact Hx'|]. exists z'. split; [exact Hz'|reflexivity].
        -- subst r. apply (req_addp pw _ (addp p3 (Ok s4 p4))). apply (req_addp p3 _ (Ok s4 p4)). exact Rz.
      * destruct (IH c s3 s3' _ (same_core_sym _ _ Rs3) E3) as [z' [Hz' Rz]]; [discriminate|].
        exists (addp pw (addp p3 z')). split.
        -- apply runs_star. exists (Ok s2' pw). split; [exact Hy'|].
           exists (Ok s3' p3). split; [exact Hx'|]. exists z'. split; [exact Hz'|reflexivity].
        -- subst r. apply (req_addp pw _ (addp p3 (Fail t))). apply (req_addp p3 _ (Fail t)). exact Rz.
      * destruct (IH c s3 s3' _ (same_core_sym _ _ Rs3) E3) as [z' [Hz' Rz]]; [discriminate|].
        exists (addp pw (addp p3 z')). split.
        -- apply runs_star. exists (Ok s2' pw). split; [exact Hy'|].
           exists (Ok s3' p3). split; [exact Hx'|]. exists z'. split; [exact Hz'|reflexivity].
        -- subst r. apply (req_addp pw _ (addp p3 Err)). apply (req_addp p3 _ Err). exact Rz.
    + assert (Hx : evals g c e s2 (Fail t)) by (exists f; split; [exact E1|discriminate]).
      destruct (sem_le_core _ _ Hle c s2 s2' _ (same_core_sym _ _ Rs2) Hx) as [x' [Hx' Rx]].
      destruct (req_fail_inv _ _ Rx) as [t' ->].
      exists (Ok (set_trk s' t') []). split.
      * apply runs_star. exists (Ok s2' pw). split; [exact Hy'|].
        exists (Fail t'). split; [exact Hx'|reflexivity].
      * subst r. split; [apply same_core_set_trk; apply same_core_sym; exact Hs|reflexivity].
    + assert (Hx : evals g c e s2 Err) by (exists f; split; [exact E1|discriminate]).
      destruct (sem_le_core _ _ Hle c s2 s2' _ (same_core_sym _ _ Rs2) Hx) as [x' [Hx' Rx]].
      apply req_err_inv in Rx. subst x'.
      exists Err. split; [|subst r; exact I].
      apply runs_star. exists (Ok s2' pw). split; [exact Hy'|].
      exists Err. split; [exact Hx'|reflexivity].
    + congruence.
  - assert (Hy : skips c s (Fail t)) by (exists f; split; [exact E2|discriminate]).
    destruct (skips_core c c s s' _ eq_refl Hs Hy) as [y' [Hy' Ry]].
    destruct (req_fail_inv _ _ Ry) as [t' ->].
    exists (Fail t'). split; [|subst r; exact I].
    apply runs_star. exists (Fail t'). split; [exact Hy'|reflexivity].
  - assert (Hy : skips c s Err) by (exists f; split; [exact E2|discriminate]).
    destruct (skips_core c c s s' _ eq_refl Hs Hy) as [y' [Hy' Ry]].
    apply req_err_inv in Ry. subst y'.
    exists Err. split; [|subst r; exact I].
    apply runs_star. exists Err. split; [exact Hy'|reflexivity].
  - congruence.
Qed.

Lemma cong_seq_le es es' : Forall2 sem_le es es' -> sem_le (ESeq es) (ESeq es').
Proof.
  intros HF c s r Hev. apply seq_is_its_task in Hev.
  destruct (seq_le_core es es' HF c s s r (same_core_refl _) Hev) as [r' [A B]].
  exists r'. split; [apply seq_is_its_task; exact A|apply req_core; exact B].
Qed.

Lemma cong_alt_le es es' : Forall2 sem_le es es' -> sem_le (EAlt es) (EAlt es').
Proof.
  intros HF c s r Hev. apply alt_is_its_task in Hev.
  destruct (alt_le_core es es' HF c s s r (same_core_refl _) Hev) as [r' [A B]].
  exists r'. split; [apply alt_is_its_task; exact A|apply req_core; exact B].
Qed.

Lemma cong_star_le e e' : sem_le e e' -> sem_le (EStar e) (EStar e').
Proof.
  intros Hle c s r Hev. apply evals_star in Hev. destruct Hev as [x [Hx K]].
  destruct (sem_le_core _ _ Hle c s s x (same_core_refl _) Hx) as [x' [Hx' Rx]].
  destruct x as [s1 p1|t| |].
  - destruct (req_ok_inv _ _ _ Rx) as [s1' [-> Rs1]].
    destruct K as [z [[fz [Ez Dz]] ->]].
    destruct (tstar_le_core e e' Hle fz c s1 s1' z (same_core_sym _ _ Rs1) Ez Dz) as [z' [Hz' Rz]].
    exists (addp p1 z'). split; [|apply req_core; apply req_addp; exact Rz].
    apply evals_star. exists (Ok s1' p1). split; [exact Hx'|]. exists z'. split; [exact Hz'|reflexivity].
  - subst r. destruct (req_fail_inv _ _ Rx) as [t' ->].
    exists (Ok (set_trk s t') []). split; [|reflexivity].
    apply evals_star. exists (Fail t'). split; [exact Hx'|reflexivity].
  - subst r. apply req_err_inv in Rx. subst x'. exists Err. split; [|reflexivity].
    apply evals_star. exists Err. split; [exact Hx'|reflexivity].
  - exfalso. eapply runs_nofuel; [exact Hx|reflexivity].
Qed.

Lemma Forall2_eq_le es es' : Forall2 sem_eq es es' -> Forall2 sem_le es es'.
Proof. induction 1 as [|a b l l' [A B] _ IH]; constructor; assumption. Qed.
Lemma Forall2_eq_ge es es' : Forall2 sem_eq es es' -> Forall2 sem_le es' es.
Proof. induction 1 as [|a b l l' [A B] _ IH]; constructor; assumption. Qed.
Lemma Forall2_repeat (R : expr -> expr -> Prop) a b n : R a b -> Forall2 R (repeat a n) (repeat b n).
Proof. intros H. induction n; cbn; constructor; assumption. Qed.

Theorem cong_seq : forall es es', Forall2 sem_eq es es' -> sem_eq (ESeq es) (ESeq es').
Proof.
  intros es es' H. split; apply cong_seq_le; [apply Forall2_eq_le|apply Forall2_eq_ge]; exact H.
Qed.
Theorem cong_alt : forall es es', Forall2 sem_eq es es' -> sem_eq (EAlt es) (EAlt es').
Proof.
  intros es es' H. split; apply cong_alt_le; [apply Forall2_eq_le|apply Forall2_eq_ge]; exact H.
Qed.
Theorem cong_star : forall e e', sem_eq e e' -> sem_eq (EStar e) (EStar e').
Proof. intros e e' [A B]. split; apply cong_star_le; assumption. Qed.

(* the bounded repetitions are their unrolled sequences *)
Lemma sem_eq_via a b a' b' :
  (forall c s r, evals g c a s r <-> evals g c a' s r) ->
  (forall c s r, evals g c b s r <-> evals g c b' s r) ->
  sem_eq a' b' -> sem_eq a b.
Proof.
  intros Ha Hb [A B]. split; intros c s r Hev.
  - apply Ha in Hev. destruct (A c s r Hev) as [r' [H1 H2]]. exists r'. split; [apply Hb; exact H1|exact H2].
  - apply Hb in Hev. destruct (B c s r Hev) as [r' [H1 H2]]. exists r'. split; [apply Ha; exact H1|exact H2].
Qed.

Theorem cong_plus : forall e e', sem_eq e e' -> sem_eq (EPlus e) (EPlus e').
Proof.
  intros e e' H. eapply sem_eq_via; [intros; apply plus_unrolled|intros; apply plus_unrolled|].
  apply cong_seq. constructor; [exact H|]. constructor; [apply cong_star; exact H|constructor].
Qed.
Theorem cong_repn : forall n e e', sem_eq e e' -> sem_eq (ERepN e n) (ERepN e' n).
Proof.
  intros n e e' H. eapply sem_eq_via; [intros; apply repn_unrolled|intros; apply repn_unrolled|].
  apply cong_seq. apply Forall2_repeat. exact H.
Qed.
Theorem cong_repmin : forall n e e', sem_eq e e' -> sem_eq (ERepMin e n) (ERepMin e' n).
Proof.
  intros n e e' H. eapply sem_eq_via; [intros; apply repmin_unrolled|intros; apply repmin_unrolled|].
  apply cong_seq. apply Forall2_app; [apply Forall2_repeat; exact H|].
  constructor; [apply cong_star; exact H|constructor].
Qed.
Theorem cong_repmax : forall n e e', sem_eq e e' -> sem_eq (ERepMax e n) (ERepMax e' n).
Proof.
  intros n e e' H. eapply sem_eq_via; [intros; apply repmax_unrolled|intros; apply repmax_unrolled|].
  apply cong_seq. apply Forall2_repeat. apply cong_opt. exact H.
Qed.
Theorem cong_repminmax : forall m n e e', sem_eq e e' -> sem_eq (ERepMinMax e m n) (ERepMinMax e' m n).
Proof.
  intros m n e e' H.
  eapply sem_eq_via; [intros; apply repminmax_unrolled|intros; apply repminmax_unrolled|].
  apply cong_seq. apply Forall2_app; apply Forall2_repeat; [exact H|apply cong_opt; exact H].
Qed.


(* ---------- T2, T3 ---------- *)

Lemma evals_grp_none c e s r : evals g c (EGrp e None) s r <-> evals g c e s r.
Proof.
  unfold evals.
  rewrite (runs_wrap' c (TEval (EGrp e None)) s c (TEval e) s (fun x => x)).
  - split; [intros [x [H ->]]; exact H|intros H; exists r; split; [exact H|reflexivity]].
  - intros f. cbn [run push_tag]. destruct (run g f c (TEval e) s); reflexivity.
  - reflexivity.
  - intros x D. exact D.
Qed.

Theorem group_id : forall e, sem_eq (EGrp e None) e.
Proof. intros e. apply sem_eq_of_iff. intros c s r. apply evals_grp_none. Qed.

Lemma evals_grp_alt c es s r : evals g c (EGrp (EAlt es) None) s r <-> runs g c (TAlt es) s r.
Proof. rewrite evals_grp_none. apply alt_is_its_task. Qed.

(* re-running e from a state that differs only in the tracker *)
Lemma evals_retrk c e s t r : evals g c e s r ->
  exists r', evals g c e (set_trk s t) r' /\ req r' r.
Proof. intros H. apply (runs_core c c (TEval e) s (set_trk s t) r eq_refl (same_core_set_trk_r s t) H). Qed.

Theorem dup_choice : forall e, sem_eq (EGrp (EAlt [e; e]) None) e.
Proof.
  intros e. split; intros c s r Hev.
  - apply evals_grp_alt in Hev. apply runs_alt_cons in Hev. destruct Hev as [x [Hx K]].
    exists x. split; [exact Hx|].
    destruct x as [s1 p1|t| |]; try (subst r; reflexivity).
    apply runs_alt_cons in K. destruct K as [x2 [Hx2 K]].
    destruct (evals_retrk c e s t _ Hx) as [x2' [Hx2' R]].
    assert (x2 = x2') by (eapply runs_det; eassumption). subst x2'.
    destruct (req_fail_inv _ _ R) as [t2 ->].
    apply runs_alt_nil in K. subst r. reflexivity.
  - destruct r as [s1 p1|t| |].
    + exists (Ok s1 p1). split; [|reflexivity]. apply evals_grp_alt. apply runs_alt_cons.
      exists (Ok s1 p1). split; [exact Hev|reflexivity].
    + destruct (evals_retrk c e s t _ Hev) as [x2 [Hx2 R]].
      destruct (req_fail_inv _ _ R) as [t2 ->].
      exists (Fail t2). split; [|reflexivity]. apply evals_grp_alt. apply runs_alt_cons.
      exists (Fail t). split; [exact Hev|]. apply runs_alt_cons.
      exists (Fail t2). split; [exact Hx2|]. apply runs_alt_nil. reflexivity.
    + exists Err. split; [|reflexivity]. apply evals_grp_alt. apply runs_alt_cons.
      exists Err. split; [exact Hev|reflexivity].
    + exfalso. eapply runs_nofuel; [exact Hev|reflexivity].
Qed.

(* ---------- T6 ---------- *)

Lemma runs_seq_cons_congr c e1 l l' : l <> [] -> l' <> [] ->
  (forall s r, runs g c (TSeq l) s r <-> runs g c (TSeq l') s r) ->
  forall s r, runs g c (TSeq (e1 :: l)) s r <-> runs g c (TSeq (e1 :: l')) s r.
Proof.
  intros N1 N2 H s r. destruct l as [|e2 l]; [congruence|]. destruct l' as [|e2' l']; [congruence|].
  rewrite !runs_seq_cons.
  split; intros [x [Hx K]]; exists x; (split; [exact Hx|]);
    destruct x; try exact K; destruct K as [y [Hy K]]; exists y; (split; [exact Hy|]);
    destruct y; try exact K; destruct K as [z [Hz ->]]; exists z;
    (split; [apply H; exact Hz|reflexivity]).
Qed.

Lemma runs_alt_cons_congr c e1 l l' :
  (forall s r, runs g c (TAlt l) s r <-> runs g c (TAlt l') s r) ->
  forall s r, runs g c (TAlt (e1 :: l)) s r <-> runs g c (TAlt (e1 :: l')) s r.
Proof.
  intros H s r. rewrite !runs_alt_cons.
  split; intros [x [Hx K]]; exists x; (split; [exact Hx|]);
    destruct x; try exact K; apply H; exact K.
Qed.

Lemma seq_assoc_runs : forall a b, b <> [] -> forall c s r,
  runs g c (TSeq (a ++ [EGrp (ESeq b) None])) s r <-> runs g c (TSeq (a ++ b)) s r.
Proof.
  intros a b Hb c. induction a as [|a1 a IH]; intros s r.
  - cbn [app]. rewrite runs_seq_one, evals_grp_none. apply seq_is_its_task.
  - cbn [app]. apply runs_seq_cons_congr.
    + intros E. apply app_eq_nil in E. destruct E as [_ E]. discriminate.
    + intros E. apply app_eq_nil in E. destruct E as [_ E]. contradiction.
    + exact IH.
Qed.

Theorem seq_assoc_group : forall a b, b <> [] ->
  sem_eq (ESeq (a ++ [EGrp (ESeq b) None])) (ESeq (a ++ b)).
Proof.
  intros a b Hb. apply sem_eq_of_iff. intros c s r.
  rewrite !seq_is_its_task. apply seq_assoc_runs. exact Hb.
Qed.

Lemma alt_assoc_runs : forall a b c s r,
  runs g c (TAlt (a ++ [EGrp (EAlt b) None])) s r <-> runs g c (TAlt (a ++ b)) s r.
Proof.
  intros a b c. induction a as [|a1 a IH]; intros s r.
  - cbn [app]. rewrite runs_alt_cons. split.
    + intros [x [Hx K]]. apply evals_grp_alt in Hx.
      destruct x as [s1 p1|t| |]; try (subst r; exact Hx).
      apply runs_alt_nil in K. subst r. exact Hx.
    + intros H. exists r. split; [apply evals_grp_alt; exact H|].
      destruct r as [s1 p1|t| |]; try reflexivity. apply runs_alt_nil. reflexivity.
  - cbn [app]. apply runs_alt_cons_congr. exact IH.
Qed.

Theorem alt_assoc_group : forall a b,
  sem_eq (EAlt (a ++ [EGrp (EAlt b) None])) (EAlt (a ++ b)).
Proof.
  intros a b. apply sem_eq_of_iff. intros c s r.
  rewrite !alt_is_its_task. apply alt_assoc_runs.
Qed.


(* ---------- T4, T5: alternatives that can never match ---------- *)

Definition never (lit : text) : Prop := forall rest, strip_prefix lit rest = None.

(* no literal satisfies `never`: it matches itself *)
Lemma never_false lit : ~ never lit.
Proof.
  intros H. specialize (H lit). assert (A := strip_prefix_app_iff lit []).
  rewrite app_nil_r in A. congruence.
Qed.

Theorem never_choice : forall e lit, never lit ->
  sem_eq (EGrp (EAlt [ESeq [e; EStr lit]; e]) None) e.
Proof. intros e lit H. exfalso. exact (never_false lit H). Qed.

Definition never_in (lit input : text) : Prop :=
  forall k, strip_prefix lit (skipn k input) = None.

Definition on_input (input : text) (s : st) : Prop := exists k, s_rest s = skipn k input.

Definition sem_le_on (input : text) (e1 e2 : expr) : Prop :=
  forall c s r, on_input input s -> evals g c e1 s r ->
    exists r', evals g c e2 s r' /\ core r' = core r.
Definition sem_eq_on (input : text) (e1 e2 : expr) : Prop :=
  sem_le_on input e1 e2 /\ sem_le_on input e2 e1.

(* implicit trivia skipping terminates successfully on the suffixes of the input; without
   this the rewrites T4/T5 are unsound: a diverging or erroring WHITESPACE rule makes
   `e ~ "lit"` diverge / raise where `e` alone succeeds *)
Definition skip_total_on (input : text) : Prop :=
  forall c s, on_input input s -> exists s2 pw, skips c s (Ok s2 pw).

Lemma skip_total_no_trivia input : has_ws g = false -> has_cm g = false -> skip_total_on input.
Proof.
  intros H1 H2 c s _. exists s, []. exists 0. split; [|discriminate].
  apply no_trivia_rules; assumption.
Qed.

Section OnInput.
Variable input : text.
Notation on := (on_input input).

Lemma on_adv s n m r : on s -> r = skipn m (s_rest s) -> on (adv s n r).
Proof.
  intros [k E] ->. exists (k + m). cbn [adv s_rest]. rewrite E. apply skipn_skipn_add.
Qed.

Definition suffix_at (f : nat) : Prop :=
  forall c t s s' ps, on s -> run g f c t s = Ok s' ps -> on s'.

Lemma skip_suffix f : suffix_at f -> forall c s s' ps, on s ->
  skip_with g (fun c' e' => run g f c' (TEval e')) c s = Ok s' ps -> on s'.
Proof.
  intros IH c s s' ps Hs H. unfold skip_with in H.
  destruct (c_atom c); try (inversion H; subst; exact Hs).
  destruct (skip_expr g); [|inversion H; subst; exact Hs].
  eapply IH; eassumption.
Qed.

Lemma suffix_all : forall f, suffix_at f.
Proof.
  induction f as [|f IH]; intros c t s s' ps Hs H; [discriminate|].
  assert (IHk := skip_suffix f IH).
  destruct t as [e|es|es|e].
  - destruct e; cbn [run] in H; try (eapply IH; eassumption).
    + (* EStr *) destruct (strip_prefix _ _) eqn:E; inversion H; subst.
      apply strip_prefix_skipn in E. destruct E as [E _]. eapply on_adv; eassumption.
    + destruct (strip_prefix_ci _ _) eqn:E; inversion H; subst.
      apply strip_prefix_ci_suffix in E. eapply on_adv; eassumption.
    + destruct (s_rest s) eqn:E; [discriminate|]. destruct (_ && _); inversion H; subst.
      apply (on_adv s 1%N 1); [exact Hs|rewrite E; reflexivity].
    + destruct (s_rest s) eqn:E; [discriminate|]. inversion H; subst.
      apply (on_adv s 1%N 1); [exact Hs|rewrite E; reflexivity].
    + destruct (N.eqb _ _); inversion H; subst. exact Hs.
    + destruct (s_rest s); inversion H; subst. exact Hs.
    + destruct (s_rest s) eqn:E; [discriminate|]. destruct (in_ranges _ _); inversion H; subst.
      apply (on_adv s 1%N 1); [exact Hs|rewrite E; reflexivity].
    + (* ERef *) destruct (lookup g n) as [r|]; [|discriminate].
      destruct (run g f (rule_ctx c r) (TEval (r_body r)) (push_tag tag s)) as [s1 kids|t| |] eqn:E;
        try discriminate.
      assert (H1 : on s1).
      { eapply IH; [|exact E]. destruct tag; exact Hs. }
      unfold finish_rule in H. destruct (r_silent r).
      * inversion H; subst. destruct tag; exact H1.
      * destruct (visible c r); inversion H; subst; destruct tag; exact H1.
    + (* EOpt *) destruct (run g f c (TEval e) s) as [s1 p1|t| |] eqn:E; try discriminate.
      * eapply IH; [exact Hs|]. rewrite E. exact H.
      * inversion H; subst. exact Hs.
    + (* EStar *) destruct (run g f c (TEval e) s) as [s1 p1|t| |] eqn:E; try discriminate.
      * apply IH in E; [|exact Hs].
        destruct (run g f c (TStar e) s1) as [s2 p2|t| |] eqn:E2; try discriminate.
        inversion H; subst. eapply IH; eassumption.
      * inversion H; subst. exact Hs.
    + (* EAnd *) destruct (run g f c (TEval e) s); inversion H; subst. exact Hs.
    + (* ENot *) destruct (run g f (neg_ctx c) (TEval e) s); inversion H; subst. exact Hs.
    + (* EGrp *) destruct (run g f c (TEval e) (push_tag tag s)) as [s1 p1|t| |] eqn:E; try discriminate.
      inversion H; subst. assert (H1 : on s1).
      { eapply IH; [|exact E]. destruct tag; exact Hs. }
      destruct tag; exact H1.
    + (* EPush *) destruct (run g f c (TEval e) s) as [s1 p1|t| |] eqn:E; try discriminate.
      inversion H; subst. apply IH in E; [|exact Hs]. exact E.
    + (* EPushLit *) inversion H; subst. exact Hs.
    + (* EPeek *) destruct (s_stk s); [discriminate|].
      destruct (strip_prefix _ _) eqn:E; inversion H; subst.
      apply strip_prefix_skipn in E. destruct E as [E _]. eapply on_adv; eassumption.
    + destruct (match_all _ _ _) as [[r n]|] eqn:E; inversion H; subst.
      apply match_all_skipn in E. destruct E as [m [_ [E _]]]. eapply on_adv; eassumption.
    + destruct (match_all _ _ _) as [[r n]|] eqn:E; inversion H; subst.
      apply match_all_skipn in E. destruct E as [m [_ [E _]]]. eapply on_adv; eassumption.
    + (* EPop *) destruct (s_stk s); [discriminate|].
      destruct (strip_prefix _ _) eqn:E; inversion H; subst.
      apply strip_prefix_skipn in E. destruct E as [E _].
      apply (on_adv s (lenN l) (length l) l1 Hs E).
    + destruct (match_all _ _ _) as [[r n]|] eqn:E; inversion H; subst.
      apply match_all_skipn in E. destruct E as [m [_ [E _]]].
      apply (on_adv s n m r Hs E).
    + (* EDrop *) destruct (s_stk s); inversion H; subst. exact Hs.
    + (* ESkipUntil *) inversion H; subst. eapply on_adv; [exact Hs|reflexivity].
  - cbn [run] in H. destruct es as [|e1 es']; [inversion H; subst; exact Hs|].
    destruct (run g f c (TEval e1) s) as [s1 p1|t| |] eqn:E1; try discriminate.
    apply IH in E1; [|exact Hs].
    destruct es' as [|e2 es'']; [inversion H; subst; exact E1|].
    destruct (skip_with g _ c s1) as [s2 pw|t| |] eqn:E2; try discriminate.
    apply IHk in E2; [|exact E1].
    destruct (run g f c (TSeq (e2 :: es'')) s2) as [s3 p3|t| |] eqn:E3; try discriminate.
    inversion H; subst. eapply IH; eassumption.
  - cbn [run] in H. destruct es as [|e1 es']; [discriminate|].
    destruct (run g f c (TEval e1) s) as [s1 p1|t| |] eqn:E1; try discriminate.
    + inversion H; subst. eapply IH; eassumption.
    + eapply IH; [|exact H]. exact Hs.
  - cbn [run] in H.
    destruct (skip_with g _ c s) as [s2 pw|t| |] eqn:E2; try discriminate.
    apply IHk in E2; [|exact Hs].
    destruct (run g f c (TEval e) s2) as [s3 p3|t| |] eqn:E1; try discriminate.
    + apply IH in E1; [|exact E2].
      destruct (run g f c (TStar e) s3) as [s4 p4|t| |] eqn:E3; try discriminate.
      inversion H; subst. eapply IH; eassumption.
    + inversion H; subst. exact Hs.
Qed.

Lemma runs_on c t s s' ps : on s -> runs g c t s (Ok s' ps) -> on s'.
Proof. intros Hs [f [H _]]. eapply suffix_all; eassumption. Qed.

Lemma skips_on c s s' ps : on s -> skips c s (Ok s' ps) -> on s'.
Proof. intros Hs [f [H _]]. eapply skip_suffix; [apply suffix_all|exact Hs|exact H]. Qed.

Lemma evals_str_never c lit s : never_in lit input -> on s ->
  evals g c (EStr lit) s (Fail (record c false (c_rule c) s)).
Proof.
  intros Hn [k E]. exists 1. split; [|discriminate]. cbn [run]. rewrite E, Hn. reflexivity.
Qed.

(* a first alternative A that fails whenever e terminates normally (and raises exactly when e
   raises, terminates only when e does) is dead *)
Lemma dead_first_alt_on A e :
  (forall c s r, on s -> evals g c e s r ->
     exists x, evals g c A s x /\ match r with Err => x = Err | _ => exists t, x = Fail t end) ->
  (forall c s x, on s -> evals g c A s x -> exists r, evals g c e s r) ->
  sem_eq_on input (EGrp (EAlt [A; e]) None) e.
Proof.
  intros C1 C2. split; intros c s r Hs Hev.
  - apply evals_grp_alt in Hev. apply runs_alt_cons in Hev. destruct Hev as [x [Hx K]].
    destruct (C2 c s x Hs Hx) as [r0 Hr0]. destruct (C1 c s r0 Hs Hr0) as [x' [Hx' M]].
    assert (x = x') by (eapply runs_det; eassumption). subst x'.
    exists r0. split; [exact Hr0|].
    destruct r0 as [s1 p1|t0| |].
    + destruct M as [t ->]. apply runs_alt_cons in K. destruct K as [x2 [Hx2 K]].
      destruct (evals_retrk c e s t _ Hr0) as [x2' [Hx2' R]].
      assert (x2 = x2') by (eapply runs_det; eassumption). subst x2'.
      destruct (req_ok_inv _ _ _ R) as [s1' [-> Rs]]. subst r. symmetry. apply req_core.
      split; [exact Rs|reflexivity].
    + destruct M as [t ->]. apply runs_alt_cons in K. destruct K as [x2 [Hx2 K]].
      destruct (evals_retrk c e s t _ Hr0) as [x2' [Hx2' R]].
      assert (x2 = x2') by (eapply runs_det; eassumption). subst x2'.
      destruct (req_fail_inv _ _ R) as [t2 ->]. apply runs_alt_nil in K. subst r. reflexivity.
    + subst x. subst r. reflexivity.
    + exfalso. eapply runs_nofuel; [exact Hr0|reflexivity].
  - destruct (C1 c s r Hs Hev) as [x [Hx M]].
    destruct r as [s1 p1|t0| |].
    + destruct M as [t ->].
      destruct (evals_retrk c e s t _ Hev) as [x2 [Hx2 R]].
      destruct (req_ok_inv _ _ _ R) as [s1' [-> Rs]].
      exists (Ok s1' p1). split; [|apply req_core; split; [exact Rs|reflexivity]].
      apply evals_grp_alt. apply runs_alt_cons. exists (Fail t). split; [exact Hx|].
      apply runs_alt_cons. exists (Ok s1' p1). split; [exact Hx2|reflexivity].
    + destruct M as [t ->].
      destruct (evals_retrk c e s t _ Hev) as [x2 [Hx2 R]].
      destruct (req_fail_inv _ _ R) as [t2 ->].
      exists (Fail t2). split; [|reflexivity].
      apply evals_grp_alt. apply runs_alt_cons. exists (Fail t). split; [exact Hx|].
      apply runs_alt_cons. exists (Fail t2). split; [exact Hx2|]. apply runs_alt_nil. reflexivity.
    + subst x. exists Err. split; [|reflexivity].
      apply evals_grp_alt. apply runs_alt_cons. exists Err. split; [exact Hx|reflexivity].
    + exfalso. eapply runs_nofuel; [exact Hev|reflexivity].
Qed.

(* after a successful first element, `skip ~ "lit"` fails *)
Lemma seq_then_never c e1 lit s s1 p1 : never_in lit input -> skip_total_on input ->
  on s1 -> evals g c e1 s (Ok s1 p1) ->
  exists t, evals g c (ESeq [e1; EStr lit]) s (Fail t).
Proof.
  intros Hn Hsk H1 Hev. destruct (Hsk c s1 H1) as [s2 [pw Hy]].
  assert (H2 := skips_on c s1 s2 pw H1 Hy).
  exists (record c false (c_rule c) s2). apply seq_is_its_task. apply runs_seq_cons.
  exists (Ok s1 p1). split; [exact Hev|]. exists (Ok s2 pw). split; [exact Hy|].
  exists (Fail (record c false (c_rule c) s2)). split; [|reflexivity].
  apply runs_seq_one. apply evals_str_never; assumption.
Qed.

Theorem never_choice_on : forall e lit, never_in lit input -> skip_total_on input ->
  sem_eq_on input (EGrp (EAlt [ESeq [e; EStr lit]; e]) None) e.
Proof.
  intros e lit Hn Hsk. apply dead_first_alt_on.
  - intros c s r Hs Hev. destruct r as [s1 p1|t| |].
    + destruct (seq_then_never c e lit s s1 p1 Hn Hsk (runs_on _ _ _ _ _ Hs Hev) Hev) as [t Ht].
      exists (Fail t). split; [exact Ht|exists t; reflexivity].
    + exists (Fail t). split; [|exists t; reflexivity].
      apply seq_is_its_task. apply runs_seq_cons. exists (Fail t). split; [exact Hev|reflexivity].
    + exists Err. split; [|reflexivity].
      apply seq_is_its_task. apply runs_seq_cons. exists Err. split; [exact Hev|reflexivity].
    + exfalso. eapply runs_nofuel; [exact Hev|reflexivity].
  - intros c s x Hs Hx. apply seq_is_its_task in Hx. apply runs_seq_cons in Hx.
    destruct Hx as [x1 [Hx1 _]]. exists x1. exact Hx1.
Qed.

Definition Fnot (e : expr) (c : ctx) (s : st) (x : res) : res :=
  match x with
  | Ok s1 _ =>
      Fail (record (neg_ctx c) true (match e with ERef n _ => n | _ => c_rule c end)
              (set_trk s (s_trk s1)))
  | Fail t => Ok (set_trk s t) []
  | Err => Err
  | Fuel => Fuel
  end.

Lemma evals_not c e s r :
  evals g c (ENot e) s r <-> exists x, evals g (neg_ctx c) e s x /\ r = Fnot e c s x.
Proof.
  unfold evals. apply runs_wrap'.
  - intros f. cbn [run]. destruct (run g f (neg_ctx c) (TEval e) s); reflexivity.
  - reflexivity.
  - intros x D. destruct x; cbn; congruence.
Qed.

Theorem negnever_choice_on : forall e lit, never_in lit input -> skip_total_on input ->
  sem_eq_on input (EGrp (EAlt [ESeq [ENot e; EStr lit]; e]) None) e.
Proof.
  intros e lit Hn Hsk. apply dead_first_alt_on.
  - intros c s r Hs Hev.
    destruct (runs_core c (neg_ctx c) (TEval e) s s r eq_refl (same_core_refl _) Hev) as [r1 [Hr1 R]].
    destruct r as [s1 p1|t| |].
    + destruct (req_ok_inv _ _ _ R) as [s1' [-> Rs]].
      eexists. split; [|eexists; reflexivity].
      apply seq_is_its_task. apply runs_seq_cons. eexists. split.
      * apply evals_not. exists (Ok s1' p1). split; [exact Hr1|reflexivity].
      * reflexivity.
    + destruct (req_fail_inv _ _ R) as [t1 ->].
      assert (Hn1 : evals g c (ENot e) s (Ok (set_trk s t1) [])).
      { apply evals_not. exists (Fail t1). split; [exact Hr1|reflexivity]. }
      destruct (seq_then_never c (ENot e) lit s (set_trk s t1) [] Hn Hsk Hs Hn1) as [t' Ht'].
      exists (Fail t'). split; [exact Ht'|exists t'; reflexivity].
    + apply req_err_inv in R. subst r1. exists Err. split; [|reflexivity].
      apply seq_is_its_task. apply runs_seq_cons. exists Err. split; [|reflexivity].
      apply evals_not. exists Err. split; [exact Hr1|reflexivity].
    + exfalso. eapply runs_nofuel; [exact Hev|reflexivity].
  - intros c s x Hs Hx. apply seq_is_its_task in Hx. apply runs_seq_cons in Hx.
    destruct Hx as [x1 [Hx1 _]]. apply evals_not in Hx1. destruct Hx1 as [x0 [Hx0 _]].
    destruct (runs_core (neg_ctx c) c (TEval e) s s x0 eq_refl (same_core_refl _) Hx0) as [r [Hr _]].
    exists r. exact Hr.
Qed.

End OnInput.

End Equiv.

(* ------------------------------------------------------------------------------------ *)
(* T7: extraction into a fresh silent rule                                               *)
(* ------------------------------------------------------------------------------------ *)

Definition noref (n : N) (x : expr) : bool :=
  match x with ERef m _ => negb (N.eqb m n) | _ => true end.

Definition extend (g : grammar) (n : N) (e : expr) : grammar :=
  g ++ [{| r_name := n; r_silent := true; r_kind := KNormal; r_body := e |}].

Lemma lookup_app : forall g h m,
  lookup (g ++ h) m = match lookup g m with Some r => Some r | None => lookup h m end.
Proof.
  induction g as [|r g IH]; intros h m; cbn; [reflexivity|].
  destruct (N.eqb (r_name r) m); [reflexivity|apply IH].
Qed.

Section Extract.
Variable g : grammar.
Variable n : N.
Variable e : expr.
Hypothesis Hfresh : lookup g n = None.
Hypothesis Hntriv : is_trivia_name n = false.
Hypothesis Hg : all_grammar (noref n) g = true.
Hypothesis He : all_sub (noref n) e = true.

Notation g' := (extend g n e).
Notation rl := {| r_name := n; r_silent := true; r_kind := KNormal; r_body := e |}.
Notation qn := (fun m : N => negb (N.eqb m n)).

Lemma lookup_extend_other m : negb (N.eqb m n) = true -> lookup g' m = lookup g m.
Proof.
  intros H. unfold extend. rewrite lookup_app. destruct (lookup g m); [reflexivity|].
  cbn. rewrite N.eqb_sym. destruct (N.eqb m n); [discriminate|reflexivity].
Qed.

Lemma lookup_extend_new : lookup g' n = Some rl.
Proof. unfold extend. rewrite lookup_app, Hfresh. cbn. rewrite N.eqb_refl. reflexivity. Qed.

Lemma ntriv : negb (N.eqb WS_ID n) = true /\ negb (N.eqb CM_ID n) = true.
Proof.
  unfold is_trivia_name in Hntriv. apply orb_false_elim in Hntriv. destruct Hntriv as [A B].
  rewrite (N.eqb_sym WS_ID n), (N.eqb_sym CM_ID n), A, B. split; reflexivity.
Qed.

Lemma skip_expr_extend : skip_expr g' = skip_expr g.
Proof.
  destruct ntriv as [A B]. unfold skip_expr, has_ws, has_cm.
  rewrite (lookup_extend_other WS_ID A), (lookup_extend_other CM_ID B). reflexivity.
Qed.

Lemma skip_expr_noref e0 : skip_expr g = Some e0 -> all_sub (refp qn) e0 = true.
Proof.
  destruct ntriv as [A B]. unfold skip_expr.
  destruct (has_ws g), (has_cm g); intros H; inversion H; subst; cbn [all_sub refp]; rewrite ?A, ?B; reflexivity.
Qed.

Lemma extend_sim : forall f c1 c2 t s1 s2, c_atom c1 = c_atom c2 -> same_core s1 s2 ->
  all_task (noref n) t = true -> req (run g' f c1 t s1) (run g f c2 t s2).
Proof.
  intros f c1 c2 t s1 s2 Hc Hs Ht.
  apply (sim_all g' g qn); try assumption.
  - intros m Hm. apply lookup_extend_other. exact Hm.
  - apply skip_expr_extend.
  - apply skip_expr_noref.
Qed.

Lemma extract_step f c s :
  run g' (S f) c (TEval (ERef n None)) s = run g' f (rule_ctx c rl) (TEval e) s.
Proof.
  cbn [run]. rewrite lookup_extend_new. cbn [r_body push_tag].
  destruct (run g' f (rule_ctx c rl) (TEval e) s); reflexivity.
Qed.

Lemma rule_ctx_atom c : c_atom (rule_ctx c rl) = c_atom c.
Proof. unfold rule_ctx, body_atom. cbn. rewrite Hntriv. reflexivity. Qed.

Theorem extract_silent_a : forall t, all_task (noref n) t = true ->
  forall f c s, core (run g' f c t s) = core (run g f c t s).
Proof.
  intros t Ht f c s. apply req_core. apply extend_sim; [reflexivity|apply same_core_refl|exact Ht].
Qed.

Theorem extract_silent_b1 : forall c s r, evals g c e s r ->
  exists r', evals g' c (ERef n None) s r' /\ core r' = core r.
Proof.
  intros c s r [f [H D]].
  assert (R := extend_sim f (rule_ctx c rl) c (TEval e) s s (rule_ctx_atom c) (same_core_refl _) He).
  rewrite H in R. exists (run g' f (rule_ctx c rl) (TEval e) s). split; [|apply req_core; exact R].
  exists (S f). split; [apply extract_step|]. eapply req_nofuel; eassumption.
Qed.

Theorem extract_silent_b2 : forall c s r, evals g' c (ERef n None) s r ->
  exists r', evals g c e s r' /\ core r' = core r.
Proof.
  intros c s r [f [H D]]. destruct f as [|f]; [cbn in H; congruence|].
  rewrite extract_step in H.
  assert (R := extend_sim f (rule_ctx c rl) c (TEval e) s s (rule_ctx_atom c) (same_core_refl _) He).
  rewrite H in R. exists (run g f c (TEval e) s). split; [|apply req_core; apply req_sym; exact R].
  exists f. split; [reflexivity|]. apply req_sym in R. eapply req_nofuel; eassumption.
Qed.

End Extract.

Theorem extract_silent : forall g n e,
  lookup g n = None -> is_trivia_name n = false ->
  all_grammar (fun x => match x with ERef m _ => negb (N.eqb m n) | _ => true end) g = true ->
  all_sub (fun x => match x with ERef m _ => negb (N.eqb m n) | _ => true end) e = true ->
  let g' := g ++ [{| r_name := n; r_silent := true; r_kind := KNormal; r_body := e |}] in
  (forall t, all_task (fun x => match x with ERef m _ => negb (N.eqb m n) | _ => true end) t = true ->
     forall f c s, core (run g' f c t s) = core (run g f c t s)) /\
  (forall c s r, evals g c e s r ->
     exists r', evals g' c (ERef n None) s r' /\ core r' = core r) /\
  (forall c s r, evals g' c (ERef n None) s r ->
     exists r', evals g c e s r' /\ core r' = core r).
Proof.
  intros g n e H1 H2 H3 H4 g'. split; [|split].
  - intros t Ht f c s. apply extract_silent_a; assumption.
  - apply extract_silent_b1; assumption.
  - apply extract_silent_b2; assumption.
Qed.

(* ---------- axiom audit ---------- *)
Print Assumptions trk_irrelevant.
Print Assumptions trk_irrelevant4.
Print Assumptions ctx_irrelevant.
Print Assumptions group_id.
Print Assumptions dup_choice.
Print Assumptions never_choice.
Print Assumptions never_choice_on.
Print Assumptions negnever_choice_on.
Print Assumptions seq_assoc_group.
Print Assumptions alt_assoc_group.
Print Assumptions extract_silent.
Print Assumptions cong_opt.
Print Assumptions cong_star.
Print Assumptions cong_plus.
Print Assumptions cong_repn.
Print Assumptions cong_repmin.
Print Assumptions cong_repmax.
Print Assumptions cong_repminmax.
Print Assumptions cong_and.
Print Assumptions cong_not.
Print Assumptions cong_grp.
Print Assumptions cong_push.
Print Assumptions cong_seq.
Print Assumptions cong_alt.
