# Build of the verification machinery: data regenerated from /repo, Coq development (full .vo
# build, never -vos), Print Assumptions capture per property file, extraction, OCaml driver.
JOBS ?= 16
PY ?= /venv/bin/python
VERIF_REPO ?= /repo
export VERIF_REPO

COQSRC := $(filter-out coq/Extract.v coq/ExtractFront.v,$(wildcard coq/*.v)) coq/Tables.v coq/Grammars.v coq/GrammarsCalc.v coq/Builtins.v
COQSRC := $(sort $(COQSRC))
COQVO := $(COQSRC:.v=.vo)
PROPSRC := $(wildcard coq/props/*.v)
PROPOUT := $(PROPSRC:.v=.assumptions)

.PHONY: all data coq props props-out ocaml clean

all: data coq props ocaml

data:
	@PYTHONPATH=$(VERIF_REPO)/src:harness PYTHONHASHSEED=0 $(PY) harness/gen_tables.py

coq: data
	@cd coq && coq_makefile -f _CoqProject $(notdir $(COQSRC)) -o Makefile.coq >/dev/null
	@cd coq && timeout 2400 $(MAKE) --no-print-directory -f Makefile.coq -j$(JOBS)

coq/props/%.assumptions: coq/props/%.v $(COQVO)
	@cd coq && timeout 900 coqc -Q . PP -w -notation-overridden props/$*.v > props/$*.assumptions.tmp \
	  && mv props/$*.assumptions.tmp props/$*.assumptions

props: coq
	@$(MAKE) --no-print-directory -j$(JOBS) props-out

props-out: $(PROPOUT)

ocaml/model.ml: $(COQVO) coq/Extract.v
	@cd ocaml && timeout 600 coqc -Q ../coq PP ../coq/Extract.v >/dev/null

ocaml/driver: ocaml/model.ml ocaml/driver.ml ocaml/conv.ml ocaml/ext.ml
	@cd ocaml && ./build.sh

# the front-end model (Front.v) has a driver of its own
ocaml/front_ml.ml: $(COQVO) coq/ExtractFront.v
	@cd ocaml && timeout 600 coqc -Q ../coq PP ../coq/ExtractFront.v >/dev/null

ocaml/front_main: ocaml/front_ml.ml ocaml/front_main.ml
	@cd ocaml && timeout 600 ocamlfind ocamlopt -w -a front_ml.mli front_ml.ml front_main.ml -o front_main

ocaml: coq
	@$(MAKE) --no-print-directory ocaml/driver ocaml/front_main

clean:
	rm -f coq/*.vo coq/*.vos coq/*.vok coq/*.glob coq/.*.aux coq/props/*.vo coq/props/*.glob \
	  coq/props/.*.aux coq/props/*.assumptions coq/Makefile.coq coq/Makefile.coq.conf coq/.Makefile.coq.d \
	  ocaml/model.ml ocaml/model.mli ocaml/*.cm* ocaml/*.o ocaml/driver coq/Extract.vo coq/Extract.glob
