#!/bin/sh
# seedtest.sh <seed-id> <property> <worktree> [extra properties to run...]
# Confirms a seeded change (tests pass, demo fails with / passes without), runs the registered
# checks against it in /repo, undoes it, and files it under /verif/seeded/<seed-id>/.
set -u
SID="$1"; PROP="$2"; WT="$3"; shift 3
OUT=/verif/seeded/$SID
mkdir -p "$OUT"
PATCH=$(ls "$WT"/patch_*.diff | head -1)
DEMO=$(ls "$WT"/demo_*.py | head -1)
cp "$PATCH" "$OUT/patch.diff"; cp "$DEMO" "$OUT/demo.py"
cd "$WT" || exit 2
git checkout -q -- src examples 2>/dev/null
git apply "$OUT/patch.diff" || { echo "patch does not apply in worktree"; exit 2; }
echo "== suite with the change"
SUITE=$(PYTHONPATH="$WT/src" /venv/bin/python -m pytest -q -p no:cacheprovider --timeout=900 --continue-on-collection-errors 2>&1 | tail -1)
echo "$SUITE"
git checkout -q -- examples 2>/dev/null
PYTHONPATH="$WT/src" /venv/bin/python "$DEMO" >/tmp/demo_with.txt 2>&1; WITH=$?
git apply -R "$OUT/patch.diff"
PYTHONPATH="$WT/src" /venv/bin/python "$DEMO" >/tmp/demo_without.txt 2>&1; WITHOUT=$?
git apply "$OUT/patch.diff"
echo "demo exit with change: $WITH, without: $WITHOUT"
cd /verif
EVBAK=$(mktemp -d); cp evidence/*.json "$EVBAK"/   # the evidence of seeded runs must not replace the clean-tree evidence
git -C /repo apply "$OUT/patch.diff" || { echo "patch does not apply to /repo"; exit 2; }
RESULTS=""
for P in "$PROP" "$@"; do
  R=$(timeout 1500 ./check "$P" 2>&1 | grep -E "^(VIOLATION|OK|KNOWN)" | head -3 | tr '\n' ';')
  echo "check $P: $R"
  RESULTS="$RESULTS $P=[$R]"
done
git -C /repo checkout -- . ; git -C /repo status --short | head -3
cp "$EVBAK"/*.json evidence/; rm -rf "$EVBAK"
cat > "$OUT/meta.json" <<JSON
{"seed": "$SID", "property": "$PROP", "suite_with_change": "$SUITE", "demo_exit_with_change": $WITH,
 "demo_exit_without_change": $WITHOUT, "checks_run": "$(echo $RESULTS | sed 's/"/\\"/g')"}
JSON
