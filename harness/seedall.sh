#!/bin/sh
# seedall.sh [tier]: apply every seeded change in /verif/seeded to /repo in turn, run the check of the property it
# breaks, undo it. Prints one line per change; a change is DETECTED when the check exits 1 with a VIOLATION line.
# /repo must be clean and nothing else may use it meanwhile.
TIER="${1:-quick}"
cd /verif || exit 2
[ -z "$(git -C /repo status --short)" ] || { echo "/repo is not clean"; exit 2; }
EVBAK=$(mktemp -d); cp evidence/*.json "$EVBAK"/   # the evidence of seeded runs must not replace the clean-tree evidence
for D in seeded/*/; do
  SID=$(basename "$D")
  PROP=$(echo "$SID" | cut -d- -f1)
  [ -f "/verif/$D/RETIRED" ] && { echo "$SID: retired (no longer breaks the property on the repaired tree)"; continue; }
  git -C /repo apply "/verif/$D/patch.diff" 2>/dev/null || { echo "$SID: patch does not apply (code moved on)"; continue; }
  OUT=$(timeout 3000 ./check "$PROP" --tier "$TIER" 2>&1 | grep -E "^(VIOLATION|OK|KNOWN)")
  git -C /repo checkout -- . 
  N=$(echo "$OUT" | grep -c "^VIOLATION")
  NF=$(echo "$OUT" | grep -c "no-failing-input-found")
  if [ "$N" -gt 0 ] && [ "$NF" -eq 0 ]; then echo "$SID: DETECTED with replay ($N shown)";
  elif [ "$N" -gt 0 ]; then echo "$SID: DETECTED, tie/proof only (no-failing-input-found)";
  else echo "$SID: MISSED"; fi
done
cp "$EVBAK"/*.json evidence/; rm -rf "$EVBAK"
[ -z "$(git -C /repo status --short)" ] && echo "/repo clean"
