"""C12: membership of EVERY code point U+0000..U+10FFFF in character terminals, through the
real parser in the four execution modes, vs the extracted model; Unicode property rules
compared between modes; escapes against pest's definitions."""

from __future__ import annotations

import multiprocessing as mp
import random

from common import NCPU, Driver

MAXCP = 0x10FFFF
NCHUNK = 16
_drv = None


def _init():
    global _drv
    _drv = Driver()


def esc_char(cp: int) -> str:
    """a pest character literal for cp"""
    if 32 < cp < 127 and chr(cp) not in "'\\":
        return "'" + chr(cp) + "'"
    return "'\\u{%04X}'" % cp


def esc_str(s: str, ci: bool = False) -> str:
    body = "".join(ch if (32 <= ord(ch) < 127 and ch not in '"\\') else "\\u{%04X}" % ord(ch) for ch in s)
    return ("^" if ci else "") + '"' + body + '"'


def expressions(tier: str, seed: int) -> list[tuple[str, str]]:
    """(label, pest expression) pairs"""
    rng = random.Random(seed)
    out: list[tuple[str, str]] = []
    for name in ("ASCII_DIGIT", "ASCII_NONZERO_DIGIT", "ASCII_BIN_DIGIT", "ASCII_OCT_DIGIT", "ASCII_HEX_DIGIT",
                 "ASCII_ALPHANUMERIC", "ASCII", "ASCII_ALPHA_LOWER", "ASCII_ALPHA_UPPER", "ASCII_ALPHA", "NEWLINE",
                 "ANY"):
        out.append((name, name))
    # (surrogates D800..DFFF are not scalar values and cannot be written in a grammar: only D7FF / E000 are end points)
    bounds = [0, 0x7F, 0x80, 0xD7FF, 0xE000, 0xFFFF, 0x10000, 0x10FFFF,
              ord("]"), ord("-"), ord("^"), ord("\\"), ord("["), ord("&"), ord("|"), ord("~"), ord("a"), ord("z"),
              ord("A"), ord("Z"), ord("k"), 0x212A, ord("s"), 0x17F, 0xDF, 0x130, 0x131]
    ranges = [(ord("a"), ord("z")), (ord("A"), ord("Z")), (ord("["), ord("^")), (ord("*"), ord("-")),
              (ord("-"), ord("]")), (0, 0x7F), (0x80, 0x10FFFF), (0xD7FF, 0xE000), (0xFFFF, 0x10000),
              (ord("&"), ord("&")), (ord("|"), ord("~")), (ord("k"), ord("k")), (0x17F, 0x212A)]
    n_rand = 30 if tier == "thorough" else 4
    for _ in range(n_rand):
        a, b = sorted((rng.choice(bounds), rng.choice(bounds)))
        if 0xD800 <= a <= 0xDFFF or 0xD800 <= b <= 0xDFFF:
            # a surrogate is not a Unicode scalar value: '\u{D800}' cannot be written in a pest grammar (the front end
            # rejects it, as pest does), so it cannot be a range END POINT; ranges spanning the gap are covered above
            continue
        ranges.append((a, b))
    for a, b in ranges:
        out.append((f"range {a:X}..{b:X}", f"{esc_char(a)}..{esc_char(b)}"))
    for ch in ("a", "k", "s", "]", "-", "\\", "^", "ß", "İ", "K"):
        out.append((f"literal {ch!r}", esc_str(ch)))
        out.append((f"ci literal {ch!r}", esc_str(ch, ci=True)))
    # mixed choices: squashed by the optimizer into one class / alternation
    mixes = [
        "'a'..'f' | 'd'..'k' | \"x\" | \"e\" | '0'..'9'",
        "\"-\" | \"]\" | \"^\" | \"\\\\\" | '['..'['",
        "^\"k\" | 's'..'s' | \"ab\" | ASCII_DIGIT",
        "ASCII_HEX_DIGIT | \"_\" | ^\"x\"",
        "'z'..'a' | \"&\" | \"|\" | \"~\" | \"&&\"",
        "NEWLINE | \" \" | \"\\t\"",
        "LETTER | \"_\" | '0'..'9'",
        "^\"ß\" | ^\"é\" | \"E\"",
        "'z'..'a' | \"x\"",
        "'a'..'z' | 'c'..'d' | \"_\"",
        "'!'..'~' | ASCII_DIGIT | \" \"",
        # case-insensitive literals whose Unicode case mappings reach into ASCII (KELVIN SIGN -> k, I WITH DOT -> i +
        # U+0307, LONG S -> S): pest ignores ASCII case only, also inside a squashed choice
        "^\"\\u{212A}\" | \"x\"",
        "^\"\\u{130}\" | \"x\"",
        "^\"\\u{17F}\" | '0'..'9'",
        "^\"\\u{212A}m\" | \"xy\" | \"q\"",
    ]
    n_mix = 40 if tier == "thorough" else 3
    for _ in range(n_mix):
        parts = []
        for _ in range(rng.randint(2, 5)):
            k = rng.random()
            if k < 0.4:
                a, b = sorted((rng.choice(bounds), rng.choice(bounds)))
                parts.append(f"{esc_char(a)}..{esc_char(b)}")
            elif k < 0.7:
                parts.append(esc_str(chr(rng.choice(bounds)), ci=rng.random() < 0.4))
            else:
                parts.append(rng.choice(["ASCII_DIGIT", "ASCII_ALPHA", "\"ab\"", "^\"Ab\"", "NEWLINE"]))
        mixes.append(" | ".join(parts))
    for m in mixes:
        out.append((f"choice {m}", m))
    if tier != "thorough":
        # quick: every kind is represented; the sample of ranges/literals is seeded
        keep = out[:12] + rng.sample(out[12:12 + len(ranges)], 7) + rng.sample(out[12 + len(ranges):-len(mixes)], 7) \
            + out[-len(mixes):]
        out = keep
    return out


def to_ranges(hits: list[int]) -> str:
    out = []
    start = prev = None
    for h in hits:
        if start is None:
            start = prev = h
        elif h == prev + 1:
            prev = h
        else:
            out.append(f"{start}-{prev},")
            start = prev = h
    if start is not None:
        out.append(f"{start}-{prev},")
    return "".join(out)


def sweep(args):
    """One (expression, chunk of the code space): hit set per mode + model."""
    label, expr, lo, hi = args
    import impl
    from export import export_parser
    invert = expr == "ANY"
    if invert:
        g = f"all = _{{ (hit | miss)* }}\nhit = _{{ {expr} }}\nmiss = {{ ANY }}\n"
    else:
        g = f"all = _{{ (hit | miss)* }}\nhit = {{ {expr} }}\nmiss = _{{ ANY }}\n"
    # every code point followed by a separator that the expression under test cannot start
    # with would change positions; instead feed the code points back to back and reject
    # multi-character matches by checking spans
    text = "".join(chr(c) for c in range(lo, hi + 1))
    b = impl.Built(g)
    res = {}
    problems = []
    if b.err:
        return label, lo, {"BUILD": str(b.err)}, None, [f"grammar does not load: {b.err} for {expr}"]
    for mode in impl.MODES:
        r = b.run(mode, "all", text, 0, timeout=600.0)
        if r[0] != "OK":
            res[mode] = f"{r[0]} {r[1] if len(r) > 1 else ''}"
            continue
        hits = []
        pos_ok = True
        for (name, s, e, _tag, _kids) in r[1]:
            if e - s != 1:
                pos_ok = False  # a multi-character alternative matched across code points
            if (name == "hit") != invert:
                hits.append(lo + s)
        if invert:
            missed = {lo + s for (name, s, e, _t, _k) in r[1]}
            hits = [c for c in range(lo, hi + 1) if c not in missed]
        res[mode] = to_ranges(hits) if pos_ok else None
    # single-character semantics through parse('hit', ch) for the model
    sexp, syms = export_parser(b.parsers["I"])
    if _drv.ask("G " + sexp) != "OK":
        return label, lo, res, None, ["driver rejected the grammar"]
    model = _drv.ask(f"C {syms.rule('hit')} {lo} {hi} 200")
    return label, lo, res, model, problems


def direct(args):
    """Fallback used when a multi-character alternative makes the back-to-back sweep ambiguous:
    parse('hit', ch) for every code point of the chunk."""
    label, expr, lo, hi = args
    import impl
    g = f"hit = {{ {expr} }}\n"
    b = impl.Built(g)
    res = {}
    for mode in impl.MODES:
        hits = []
        for c in range(lo, hi + 1):
            r = b.run(mode, "hit", chr(c), 0)
            if r[0] == "OK" and r[1] and r[1][0][2] == 1:
                hits.append(c)
            elif r[0] not in ("OK", "FAIL"):
                res[mode] = f"{r[0]} {r[1]} at U+{c:04X}"
                break
        else:
            res[mode] = to_ranges(hits)
    return label, lo, res


def unicode_props(args):
    """Built-in Unicode property rules: the interpreter's compiled regex vs the pattern the
    generated code / optimized choice compile (VERSION1), over every code point."""
    names = args
    import regex as re
    from pest import Parser
    bad = []
    n = 0
    for name in names:
        rule = Parser.BUILTIN[name]
        pat = rule.expression.pattern
        a = rule.expression.regex
        b = re.compile(pat, re.VERSION1)
        c = re.compile("(?:" + pat + "|[])", re.VERSION1) if False else None
        for cp in range(MAXCP + 1):
            ch = chr(cp)
            ma = a.match(ch) is not None
            mb = b.match(ch) is not None
            n += 1
            if ma != mb:
                bad.append({"kind": "property", "what": f"{name}: interpreter and generated code disagree on U+{cp:04X}",
                            "rule": name, "cp": cp})
                break
    return n, bad


def escapes_check():
    """String and character escapes denote the code points pest defines (through from_grammar)."""
    from pest import Parser
    bad = []
    n = 0
    cases = [("\\n", 10), ("\\r", 13), ("\\t", 9), ("\\\\", 92), ("\\\"", 34), ("\\'", 39), ("\\0", 0)]
    for h in (0, 1, 0x7F, 0x80, 0xFF, 0x41):
        cases.append(("\\x%02X" % h, h))
        cases.append(("\\x%02x" % h, h))
    for cp in (0x41, 0xE9, 0x100, 0xFFFF, 0x10000, 0x10FFFF, 0x0, 0xD7FF, 0xE000, 0x212A):
        for width in (2, 3, 4, 5, 6):
            s = "%0*X" % (width, cp)
            if len(s) == width:
                cases.append(("\\u{%s}" % s, cp))
    for esc, cp in cases:
        for kind in ("string", "char"):
            if kind == "char" and esc == "\\\"":
                continue
            if kind == "string" and esc == "\\'":
                pass
            g = f'r = {{ "{esc}" }}\n' if kind == "string" else f"r = {{ '{esc}'..'{esc}' }}\n"
            n += 1
            try:
                p = Parser.from_grammar(g, optimizer=None)
            except Exception as e:  # noqa: BLE001
                bad.append({"escape": esc, "kind": kind, "what": f"rejected: {type(e).__name__}", "cp": cp})
                continue
            try:
                p.parse("r", chr(cp))
            except Exception as e:  # noqa: BLE001
                bad.append({"escape": esc, "kind": kind, "what": f"does not denote U+{cp:04X} ({type(e).__name__})",
                            "cp": cp})
    # escapes IN CONTEXT: a prefix, a suffix, and adjacent escapes in one string literal; the whole literal
    # must denote exactly the concatenation (accept it, reject it with the last character removed or changed)
    for esc, cp in cases:
        for pre, suf in (("", "B"), ("A", ""), ("A", "B")):
            for esc2, cp2 in (("", None), ("\\u{42}", 0x42), ("\\x43", 0x43), ("\\n", 10)):
                lit = pre + esc + esc2 + suf
                want = pre + chr(cp) + ("" if cp2 is None else chr(cp2)) + suf
                n += 1
                try:
                    p = Parser.from_grammar(f'r = {{ SOI ~ "{lit}" ~ EOI }}\n', optimizer=None)
                except Exception as e:  # noqa: BLE001
                    bad.append({"escape": lit, "kind": "string", "what": f"rejected: {type(e).__name__}", "cp": cp})
                    continue
                for text, ok in ((want, True), (want[:-1], False), (want + "B", False)):
                    try:
                        p.parse("r", text)
                        got = True
                    except Exception:  # noqa: BLE001
                        got = False
                    if got != ok:
                        bad.append({"escape": lit, "kind": "string",
                                    "what": f"{'rejects' if ok else 'accepts'} {text!r} (it denotes {want!r})", "cp": cp})
                        break
    return n, bad


def check(tier: str, seed: int):
    from checks import Result
    res = Result()
    exprs = expressions(tier, seed)
    step = (MAXCP + 1) // NCHUNK
    work = []
    for label, expr in exprs:
        for i in range(NCHUNK):
            lo = i * step
            hi = MAXCP if i == NCHUNK - 1 else (i + 1) * step - 1
            work.append((label, expr, lo, hi))
    ctx = mp.get_context("fork")
    redo = []
    evals = 0
    with ctx.Pool(NCPU, initializer=_init) as pool:
        for (label, lo, modes, model, problems), w in zip(pool.imap(sweep, work, chunksize=2), work):
            evals += (w[3] - w[2] + 1) * 4
            for p in problems:
                res.tie_breaks.append({"what": p, "label": label})
            if any(v is None for v in modes.values()):
                redo.append(w)
                continue
            _judge(res, label, w, modes, model)
        # ambiguous sweeps (multi-character alternatives): code point by code point, ASCII..U+2FFF
        # exhaustively and the rest through the boundary set
        small = [(l, e, lo, min(hi, 0x2FFF)) for (l, e, lo, hi) in redo if lo <= 0x2FFF]
        for (label, lo, modes), w in zip(pool.imap(direct, small), small):
            evals += (w[3] - w[2] + 1) * 4
            sexp_model = None
            _judge(res, label, w, modes, sexp_model, between_only=True)
        # Unicode property rules, all of them, at the regex level
        from pest import Parser
        names = [n for n, r in Parser.BUILTIN.items() if type(r).__name__ == "UnicodePropertyRule"]
        if tier != "thorough":
            rng = random.Random(seed)
            names = rng.sample(names, 48)
        per = max(1, len(names) // NCPU)
        for n, bad in pool.imap_unordered(unicode_props, [names[i:i + per] for i in range(0, len(names), per)]):
            evals += n
            for b in bad:
                res.violations.append({"what": b["what"], "replay": b})
    n, bad = escapes_check()
    evals += n
    known_bad = []
    for b in bad:
        res.violations.append({"what": f"escape {b['escape']} in a {b['kind']} literal {b['what']}",
                               "signature": f"escape:{b['escape']}:{b['kind']}", "replay": b})
    res.evaluations = evals
    res.distinct_nontrivial = len(exprs)
    res.exhaustive = True
    res.rule = (f"{len(exprs)} character expressions (every ASCII_* built-in, NEWLINE, ANY; ranges with boundaries at "
                "0, 7F/80, D7FF/D800/DFFF/E000, FFFF/10000, 10FFFF and regex-special end points; literals and "
                "case-insensitive literals incl. k/K/U+212A, s/U+017F, ß; mixed choices the optimizer squashes) x ALL "
                "1,114,112 code points x four execution modes through the real parser "
                "(all = (hit | miss)* over the whole code space in 16 chunks), compared with the extracted model "
                "evaluated on every code point; Unicode property rules: interpreter regex vs VERSION1 regex on every "
                "code point; every escape form x boundary values through from_grammar. evaluations = code point "
                "membership decisions; distinct_nontrivial = expressions.")
    res.samples = [f"{l}: {e}" for l, e in exprs[:6]]
    return res


def _judge(res, label, w, modes, model, between_only=False):
    vals = {m: v for m, v in modes.items()}
    ref = model if model is not None else vals.get("I")
    for m, v in vals.items():
        if v != ref:
            diff = _first_diff(v, ref)
            what = (f"{label}: mode {m} accepts a different set of code points than "
                    f"{'the model' if model is not None else 'mode I'} in chunk U+{w[2]:04X}..U+{w[3]:04X} ({diff})")
            res.violations.append({"what": what, "replay": {"expr": w[1], "mode": m, "chunk": [w[2], w[3]],
                                                             "got": (v or "")[:400], "want": (ref or "")[:400]}})


def _first_diff(a, b):
    if a is None or b is None or not isinstance(a, str) or not isinstance(b, str):
        return f"{a!r} vs {b!r}"[:200]

    def pts(s):
        out = set()
        for part in s.split(","):
            if "-" in part:
                x, y = part.split("-")
                out.update(range(int(x), int(y) + 1))
        return out

    if len(a) > 200000 or len(b) > 200000:
        return "large difference"
    d = pts(a) ^ pts(b)
    return "first difference at U+%04X" % min(d) if d else "same set, different rendering"
