"""frontmodel.py — the tie between the Coq model of the grammar front end (coq/Front.v, extracted to
ocaml/front_main; totality theorem FrontProof.front_total) and Parser.from_grammar(text, optimizer=None).
One canonical line per grammar text from each side: `OK (rule name modifier doc.. expr)..`, `SYNTAX <token.start>`,
`CRASH <type>`. Used by the C10 / C11 checks on every text they generate, plus the edge texts the model was
developed against (front_edge_cases.py)."""

from __future__ import annotations

import os
import signal
import subprocess

from common import VERIF

BIN = os.path.join(VERIF, "ocaml", "front_main")


# ---------------------------------------------------------------- canonical line (Python side)
def text(s: str) -> str:
    return ".".join(format(ord(c), "x") for c in s) if s else "-"


def tag(e) -> str:
    return "none" if e.tag is None else "#" + text(e.tag)


def oz(v) -> str:
    return "none" if v is None else format(v, "x")


def expr(e) -> str:  # noqa: PLR0911, PLR0912
    from pest.grammar import expressions as X
    from pest.grammar.rule import Rule
    t = type(e)
    if isinstance(e, Rule):  # a built-in Rule object used directly as an expression
        return f"(ref {text(e.name)} {tag(e)})"
    if t is X.String:
        assert e.tag is None
        return f"(str {text(e.value)})"
    if t is X.CIString:
        assert e.tag is None
        return f"(ci {text(e.value)})"
    if t is X.Range:
        return f"(range {text(e.start)} {text(e.stop)} {tag(e)})"
    if t is X.Identifier:
        return f"(ref {text(e.value)} {tag(e)})"
    if t is X.Sequence:
        assert e.tag is None
        return "(seq" + "".join(" " + expr(c) for c in e.expressions) + ")"
    if t is X.Choice:
        assert e.tag is None
        return "(alt" + "".join(" " + expr(c) for c in e.expressions) + ")"
    if t is X.Optional:
        assert e.tag is None
        return f"(opt {expr(e.expression)})"
    if t is X.Repeat:
        assert e.tag is None
        return f"(star {expr(e.expression)})"
    if t is X.RepeatOnce:
        assert e.tag is None
        return f"(plus {expr(e.expression)})"
    if t is X.RepeatExact:
        assert e.tag is None
        return f"(repn {expr(e.expression)} {format(e.number, 'x')})"
    if t is X.RepeatMin:
        assert e.tag is None
        return f"(repmin {expr(e.expression)} {format(e.number, 'x')})"
    if t is X.RepeatMax:
        assert e.tag is None
        return f"(repmax {expr(e.expression)} {format(e.number, 'x')})"
    if t is X.RepeatMinMax:
        assert e.tag is None
        return f"(repminmax {expr(e.expression)} {format(e.min, 'x')} {format(e.max, 'x')})"
    if t is X.PositivePredicate:
        return f"(and {expr(e.expression)} {tag(e)})"
    if t is X.NegativePredicate:
        return f"(not {expr(e.expression)} {tag(e)})"
    if t is X.Group:
        return f"(grp {expr(e.expression)} {tag(e)})"
    if t is X.Push:
        return f"(push {expr(e.expression)} {tag(e)})"
    if t is X.PushLiteral:
        return f"(pushlit {text(e.value)} {tag(e)})"
    if t is X.Peek:
        return f"(peek {tag(e)})"
    if t is X.PeekSlice:
        return f"(peeksl {oz(e.start)} {oz(e.stop)} {tag(e)})"
    if t is X.PeekAll:
        return f"(peekall {tag(e)})"
    if t is X.Pop:
        return f"(pop {tag(e)})"
    if t is X.PopAll:
        return f"(popall {tag(e)})"
    if t is X.Drop:
        return f"(drop {tag(e)})"
    raise AssertionError(f"unknown expression class {t}")




class _Hang(Exception):
    pass


def _alarm(_sig, _frm):
    raise _Hang()


def python_line(g: str) -> str:
    from pest import Parser
    from pest.grammar.exceptions import PestGrammarError
    from pest.grammar.rule import GrammarRule
    old = signal.signal(signal.SIGALRM, _alarm)
    signal.alarm(20)
    try:
        p = Parser.from_grammar(g, optimizer=None)
    except PestGrammarError as e:
        tok = getattr(e, "token", None)
        return "SYNTAX " + (str(tok.start) if tok is not None else "none")
    except _Hang:
        return "HANG"
    except RecursionError:
        return "SYNTAX none"
    except Exception as e:  # noqa: BLE001
        return "CRASH " + type(e).__name__
    finally:
        signal.alarm(0)
        signal.signal(signal.SIGALRM, old)
    out = ["OK"]
    try:
        for r in p.rules.values():
            if type(r) is GrammarRule:
                doc = list(r.doc) if r.doc else []
                out.append(f"(rule {text(r.name)} {format(r.modifier, 'x')} {len(doc)}"
                           + "".join(" " + text(d) for d in doc) + " " + expr(r.expression) + ")")
    except RecursionError:
        return "SYNTAX none"      # an expression too deep for this harness to print: no verdict
    return " ".join(out)


def model_lines(cases: list[str]) -> list[str]:
    inp = "\n".join(" ".join(str(ord(c)) for c in g) for g in cases) + "\n"
    r = subprocess.run([BIN], input=inp.encode(), capture_output=True, timeout=1200, check=False)
    if r.returncode != 0:
        raise RuntimeError("front model driver failed: " + r.stderr.decode()[:300])
    return r.stdout.decode().split("\n")[:-1]


def tie(texts: list[str]) -> tuple[int, int, list[dict]]:
    """-> (compared, outside the model, disagreements). A text on which the library reports the tokenless
    'nested too deeply' error (CPython's recursion limit, not modelled) or which cannot be sent to the driver
    (a line break inside the one-line protocol is fine: texts travel as code points) is outside the model."""
    if not texts:
        return 0, 0, []
    ms = model_lines(texts)
    bad = []
    outside = 0
    for t, m in zip(texts, ms):
        p = python_line(t)
        if p == "SYNTAX none":
            outside += 1
            continue
        if p != m:
            bad.append({"what": "the front-end model (Front.v) and Parser.from_grammar disagree",
                        "text": t, "impl": p[:400], "model": m[:400]})
    return len(texts) - outside, outside, bad
