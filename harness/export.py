"""Fail-closed exporter: python-pest Rule/Expression objects -> s-expressions of coq/Syntax.v.

An unknown class, or a known class whose attributes do not have the expected shape, raises
ExportError: the correspondence check then reports that it can no longer see the code
(never silently skips a construct).
"""

from __future__ import annotations

import regex as re

from pest.grammar import expression as _expression
from pest.grammar.expressions import choice as _choice
from pest.grammar.expressions import group as _group
from pest.grammar.expressions import postfix as _postfix
from pest.grammar.expressions import prefix as _prefix
from pest.grammar.expressions import sequence as _sequence
from pest.grammar.expressions import terminals as _t
from pest.grammar import rule as _rule
from pest.grammar.rules import special as _special


class ExportError(Exception):
    pass


class Symbols:
    """Rule-name and tag symbol tables (names <-> N identifiers)."""

    RESERVED = ("WHITESPACE", "COMMENT", "SKIP", "EOI")

    def __init__(self) -> None:
        self.ids: dict[str, int] = {}
        self.names: list[str] = []
        self.tag_ids: dict[str, int] = {}
        self.tags: list[str] = []
        for n in self.RESERVED:
            self.rule(n)

    def rule(self, name: str) -> int:
        if name == "SKIP" and getattr(self, "user_skip", False):
            # the grammar itself defines a rule called SKIP: it is an ordinary rule, not the optimizer's fused
            # trivia rule (which keeps the reserved identifier)
            name = "SKIP$user"
        if name not in self.ids:
            self.ids[name] = len(self.names)
            self.names.append(name)
        return self.ids[name]

    def tag(self, name: str) -> int:
        if name not in self.tag_ids:
            self.tag_ids[name] = len(self.tags)
            self.tags.append(name)
        return self.tag_ids[name]


_PROP_CACHE: dict[str, str] = {}


def _class_ranges(pattern: str) -> str:
    """Code-point ranges accepted by a one-character regex (Unicode property rules)."""
    if pattern in _PROP_CACHE:
        return _PROP_CACHE[pattern]
    rx = re.compile(pattern, re.VERSION1)
    out: list[str] = []
    start = None
    fullmatch = rx.fullmatch
    for c in range(0x110000):
        hit = fullmatch(chr(c)) is not None
        if hit and start is None:
            start = c
        elif not hit and start is not None:
            out.append(f"{start} {c - 1}")
            start = None
    if start is not None:
        out.append(f"{start} {0x10FFFF}")
    s = "(cls " + " ".join(out) + ")" if out else "(cls)"
    _PROP_CACHE[pattern] = s
    return s


def _cps(s: str) -> str:
    return " ".join(str(ord(c)) for c in s)


def _one(s: object, what: str) -> int:
    if not isinstance(s, str) or len(s) != 1:
        raise ExportError(f"{what}: expected a one-character string, got {s!r}")
    return ord(s)


def _regex_items(pat: str) -> list[list[tuple[str, str]]]:
    """Tokenise the body of a pattern built by choice.build_optimized_pattern into alternatives of items
    ('lit', ch) | ('cls', text) | ('prop', text). Fail-closed on anything else."""
    alts: list[list[tuple[str, str]]] = [[]]
    i, n = 0, len(pat)
    while i < n:
        ch = pat[i]
        if ch == "|":
            alts.append([])
            i += 1
        elif ch == "\\":
            if i + 1 >= n:
                raise ExportError(f"regex {pat!r}: trailing backslash")
            nx = pat[i + 1]
            if nx in "pP":
                j = pat.find("}", i)
                if i + 2 >= n or pat[i + 2] != "{" or j < 0:
                    raise ExportError(f"regex {pat!r}: property syntax")
                alts[-1].append(("prop", pat[i:j + 1]))
                i = j + 1
            elif nx.isalnum():
                raise ExportError(f"regex {pat!r}: escape \\{nx}")
            else:
                alts[-1].append(("lit", nx))
                i += 2
        elif ch == "[":
            j = i + 1
            while j < n and pat[j] != "]":
                j += 2 if pat[j] == "\\" else 1
            if j >= n:
                raise ExportError(f"regex {pat!r}: unterminated class")
            alts[-1].append(("cls", pat[i:j + 1]))
            i = j + 1
        elif ch in "()*+?{}^$.":
            raise ExportError(f"regex {pat!r}: operator {ch!r} at {i}")
        else:
            alts[-1].append(("lit", ch))
            i += 1
    return alts


def _regex_alt(pat: str, star: bool) -> str:
    """Denotation of the regex an OptimizedChoice compiles, as an ordered choice of terminals (read from the
    compiled pattern text, not from `choices`): literal -> str, ASCII-case-insensitive literal -> ci, one class or
    property -> cls. Nothing follows the group in the pattern, so first-match alternation = PEG ordered choice."""
    body = pat
    if star:
        if not body.endswith("*"):
            raise ExportError(f"regex {pat!r}: repeat without *")
        body = body[:-1]
    if body.startswith("(?:") and body.endswith(")"):
        body = body[3:-1]
    elif star and body:
        raise ExportError(f"regex {pat!r}: repeat without group")
    out = []
    if body == "(?!)" or body == "":
        alts = []
    else:
        alts = _regex_items(body)
    for items in alts:
        if not items:
            raise ExportError(f"regex {pat!r}: empty alternative")
        kinds = {k for k, _ in items}
        if kinds == {"lit"}:
            out.append("(str " + " ".join(str(ord(c)) for _, c in items) + ")")
        elif len(items) == 1:
            out.append(_class_ranges(items[0][1]))
        elif kinds <= {"lit", "cls"}:
            cps = []
            for k, t in items:
                if k == "lit":
                    if t.isascii() and t.isalpha():
                        raise ExportError(f"regex {pat!r}: case-sensitive letter inside an insensitive literal")
                    cps.append(ord(t))
                else:
                    inner = t[1:-1]
                    if len(inner) != 2 or not inner.isascii() or not inner.isalpha() or inner[0].lower() != inner[1].lower() \
                            or inner[0] == inner[1]:
                        raise ExportError(f"regex {pat!r}: class {t!r} inside a literal")
                    cps.append(ord(inner[0].lower()))
            out.append("(ci " + " ".join(map(str, cps)) + ")")
        else:
            raise ExportError(f"regex {pat!r}: alternative {items!r}")
    alt = "(alt" + "".join(" " + o for o in out) + ")"
    return f"(star {alt})" if star else alt


class Exporter:
    def __init__(self, rules: dict, syms: Symbols | None = None) -> None:
        self.rules = rules
        self.syms = syms or Symbols()
        self.defs: dict[str, object] = {}  # name -> Rule object exported under that name
        self.work: list[str] = []
        self.out: list[str] = []
        self.aliases: dict[str, tuple] = {}

    # -- expressions --------------------------------------------------------
    def tag(self, t: object) -> str:
        if t is None:
            return ""
        if not isinstance(t, str):
            raise ExportError(f"tag {t!r}")
        return f" {self.syms.tag(t)}"

    def ref_rule_object(self, r: object) -> str:
        """An embedded Rule object (built-ins are embedded by the front end; `with_children` copies them).
        A copy that differs from the rule of that name is exported under an alias `NAME@k`."""
        name = r.name
        known = self.defs.get(name)
        if known is None and (name not in self.rules or self.rules[name] is r):
            self.defs[name] = r
            self.work.append(name)
            return f"(ref {self.syms.rule(name)})"
        if known is r:
            return f"(ref {self.syms.rule(name)})"
        # a different object: same content as the table's rule -> the same rule
        base = self.rules.get(name, known)
        if name not in self.defs:
            self.defs[name] = base
            self.work.append(name)
        sub = Exporter(self.rules, self.syms)
        sub.defs, sub.work, sub.aliases = self.defs, self.work, self.aliases
        mine = (r.modifier, sub.expr(r.expression))
        theirs = (base.modifier, sub.expr(base.expression))
        if mine == theirs:
            return f"(ref {self.syms.rule(name)})"
        for alias, (obj, sig) in self.aliases.items():
            if alias.startswith(name + "@") and sig == mine:
                return f"(ref {self.syms.rule(alias)})"
        alias = f"{name}@{len(self.aliases) + 1}"
        self.aliases[alias] = (r, mine)
        self.defs[alias] = r
        self.work.append(alias)
        return f"(ref {self.syms.rule(alias)})"

    def expr(self, e: object) -> str:  # noqa: PLR0911, PLR0912
        ty = type(e)
        x = self.expr
        if isinstance(e, _rule.Rule):
            return self.ref_rule_object(e)
        if ty is _t.String:
            return f"(str {_cps(e.value)})" if e.value else "(str)"
        if ty is _t.CIString:
            # ASCII letters are exported lower-cased (the model folds ASCII case on both sides, so this is the same
            # terminal); the regex of an optimized choice is read back the same way
            v = "".join(c.lower() if c.isascii() else c for c in e.value)
            return f"(ci {_cps(v)})" if v else "(ci)"
        if ty is _t.Range:
            return f"(rng {_one(e.start, 'Range.start')} {_one(e.stop, 'Range.stop')})"
        if ty is _special._Any:
            return "any"
        if ty is _special._SOI:
            return "soi"
        if ty is _special._EOI:
            return "eoi"
        if ty is _expression.RegexExpression:
            return _class_ranges(e.pattern)
        if ty is _t.Identifier:
            name = e.value
            if name in self.rules:
                if name not in self.defs:
                    self.defs[name] = self.rules[name]
                    self.work.append(name)
                elif self.defs[name] is not self.rules[name]:
                    raise ExportError(f"two different rule objects named {name!r}")
            return f"(ref {self.syms.rule(name)}{self.tag(e.tag)})"
        if ty is _sequence.Sequence:
            return "(seq" + "".join(" " + x(c) for c in e.expressions) + ")"
        if ty is _choice.Choice:
            return "(alt" + "".join(" " + x(c) for c in e.expressions) + ")"
        if ty is _postfix.Optional:
            return f"(opt {x(e.expression)})"
        if ty is _postfix.Repeat:
            return f"(star {x(e.expression)})"
        if ty is _postfix.RepeatOnce:
            return f"(plus {x(e.expression)})"
        if ty is _postfix.RepeatExact:
            return f"(repn {x(e.expression)} {int(e.number)})"
        if ty is _postfix.RepeatMin:
            return f"(repmin {x(e.expression)} {int(e.number)})"
        if ty is _postfix.RepeatMax:
            return f"(repmax {x(e.expression)} {int(e.number)})"
        if ty is _postfix.RepeatMinMax:
            return f"(repmm {x(e.expression)} {int(e.min)} {int(e.max)})"
        if ty is _prefix.PositivePredicate:
            return f"(and {x(e.expression)})"
        if ty is _prefix.NegativePredicate:
            return f"(not {x(e.expression)})"
        if ty is _group.Group:
            return f"(grp {x(e.expression)}{self.tag(e.tag)})"
        if ty is _t.Push:
            return f"(push {x(e.expression)})"
        if ty is _t.PushLiteral:
            return f"(pushlit {_cps(e.value)})" if e.value else "(pushlit)"
        if ty is _t.Peek:
            return "peek"
        if ty is _t.PeekAll:
            return "peekall"
        if ty is _t.Pop:
            return "pop"
        if ty is _t.PopAll:
            return "popall"
        if ty is _t.Drop:
            return "drop"
        if ty is _t.PeekSlice:
            a = "_" if e.start is None else str(int(e.start))
            b = "_" if e.stop is None else str(int(e.stop))
            return f"(peeksl {a} {b})"
        if ty is _choice.OptimizedChoice:
            return _regex_alt(e.pattern.pattern, star=False)
        if ty is _choice.OptimizedChoiceRepeat:
            return _regex_alt(e.pattern.pattern, star=True)
        if ty is _t.SkipUntil:
            return "(skipuntil" + "".join(f" ({_cps(s)})" for s in e.subs) + ")"
        raise ExportError(f"unknown expression class {ty.__module__}.{ty.__name__}")

    # -- rules --------------------------------------------------------------
    def rule(self, name: str, r: object) -> str:
        if not isinstance(r, _rule.Rule):
            raise ExportError(f"rule table entry {name!r} is {type(r).__name__}")
        m = r.modifier
        known = _rule.SILENT | _rule.ATOMIC | _rule.COMPOUND | _rule.NONATOMIC
        if not isinstance(m, int) or m & ~known:
            raise ExportError(f"modifier {m!r} of {name!r}")
        silent = 1 if m & _rule.SILENT else 0
        kinds = [k for k, bit in ((1, _rule.ATOMIC), (2, _rule.COMPOUND), (3, _rule.NONATOMIC)) if m & bit]
        if len(kinds) > 1:
            raise ExportError(f"modifier {m!r} of {name!r}")
        kind = kinds[0] if kinds else 0
        if silent and kind in (2, 3):
            # hypothesis of InterpProof.iparse_refines_one_modifier / GenProof: a silent rule is not $ or !
            # (the grammar syntax allows one modifier per rule, so the front end never builds one)
            raise ExportError(f"silent rule {name!r} with a $ or ! modifier: outside the proved domain")
        if r.name != name and not (name in self.aliases and name.split("@")[0] == r.name):
            raise ExportError(f"rule {name!r} carries name {r.name!r}")
        return f"(rule {self.syms.rule(name)} {silent} {kind} {self.expr(r.expression)})"

    def export(self, roots: list[str]) -> str:
        """Export the rules reachable from `roots` (plus WHITESPACE/COMMENT when defined)."""
        for n in list(roots) + ["WHITESPACE", "COMMENT"]:
            if n in self.rules and n not in self.defs:
                self.defs[n] = self.rules[n]
                self.work.append(n)
        done: set[str] = set()
        while self.work:
            n = self.work.pop()
            if n in done:
                continue
            done.add(n)
            self.out.append(self.rule(n, self.defs[n]))
        return " ".join(self.out)


def export_parser(parser: object, roots: list[str] | None = None, syms: Symbols | None = None):
    """Return (sexp text, Symbols) for the user rules of `parser` and what they reach."""
    rules = parser.rules
    if roots is None:
        roots = [n for n, r in rules.items() if not isinstance(r, _rule.BuiltInRule)]
    if syms is None:
        # decided once, from the unoptimized table: an optimizer that replaced the user's rule by its fused one
        # is then exported under the user's identifier and the validator sees the changed modifiers
        syms = Symbols()
        syms.user_skip = "SKIP" in rules and rules["SKIP"].modifier != _rule.SILENT_ATOMIC
    ex = Exporter(rules, syms)
    text = ex.export(roots)
    # built-in rules other than EOI are inlined by the code generator (BuiltInRule.generate): Gen.v is told which
    ex.syms.exported = list(ex.defs)
    for n, r in ex.defs.items():
        if isinstance(r, _rule.BuiltInRule) and n != "EOI" and (r.modifier != _rule.SILENT or n in ("WHITESPACE", "COMMENT")):
            # hypothesis inl_ok of GenProof.gparse_inl / C01_generated_equals_interpreter
            raise ExportError(f"built-in rule {n!r} emitted in place is not a plain silent rule: outside the proved domain")
    ex.syms.inlined = sorted(ex.syms.rule(n) for n in ex.defs
                             if isinstance(ex.defs[n], _rule.BuiltInRule) and n != "EOI")
    return text, ex.syms
