#!/bin/sh
# seedreg_scratch.sh [property ...]: regression of the filed seeds WITHOUT touching /repo or /verif/evidence.
# Makes a scratch worktree of /repo's HEAD and a scratch copy of /verif, applies every seeded change of the given
# properties (default: all) to the worktree in turn and runs the check of its property there (VERIF_REPO).
# Result lines go to stdout; both scratch directories are removed at the end.
set -u
WT=$(mktemp -d /tmp/seedreg-wt.XXXX); VW=$(mktemp -d /tmp/seedreg-vw.XXXX)
rmdir "$WT"; git -C /repo worktree add -q --detach "$WT" HEAD || exit 2
rsync -a --exclude .git /verif/ "$VW"/
cd "$VW" || exit 2
for D in /verif/seeded/*/; do
  SID=$(basename "$D"); PROP=$(echo "$SID" | cut -d- -f1)
  if [ $# -gt 0 ]; then case " $* " in *" $PROP "*) ;; *) continue;; esac; fi
  [ -f "$D/RETIRED" ] && { echo "$SID: retired"; continue; }
  git -C "$WT" checkout -q -- .
  git -C "$WT" apply "$D/patch.diff" 2>/dev/null || { echo "$SID: patch does not apply (code moved on)"; continue; }
  OUT=$(VERIF_REPO="$WT" timeout 3000 ./check "$PROP" --tier quick 2>&1 | grep -E "^(VIOLATION|OK|KNOWN)")
  git -C "$WT" checkout -q -- .
  N=$(echo "$OUT" | grep -c "^VIOLATION"); NF=$(echo "$OUT" | grep -c "no-failing-input-found")
  if [ "$N" -gt 0 ] && [ "$NF" -eq 0 ]; then echo "$SID: DETECTED with replay ($N shown)";
  elif [ "$N" -gt 0 ]; then echo "$SID: DETECTED, tie/proof only (no-failing-input-found)";
  else echo "$SID: MISSED"; fi
done
git -C /repo worktree remove --force "$WT"; rm -rf "$VW"
