"""Grammar and input generators.

G1: template-complete small scope (deterministic enumeration; a seeded sample of it in quick).
G2: seeded random well-formed grammars.
G3: the bundled grammars with their corpora (see g3.py).

Every grammar is produced as pest *text*, so the front end is exercised as well.
"""

from __future__ import annotations

import itertools
import random

# --------------------------------------------------------------------------- G1

HELPERS = {
    "nr": 'nr = { "a" }',
    "nb": 'nb = { "b" }',
    "sr": 'sr = _{ "a" ~ "b" }',
    "sn": 'sn = _{ nr ~ "b" }',
    "ar": 'ar = @{ "a" ~ nr }',
    "cr": 'cr = ${ "a" ~ nr }',
    "xr": 'xr = !{ "a" ~ nr }',
    "ac": 'ac = @{ nr ~ cr }',
    "ax": 'ax = @{ "a" ~ xr }',
}

# atom text, set of helper rules used, nullable?, character classes it mentions
ATOMS: list[tuple[str, tuple[str, ...], bool, str]] = [
    ('"a"', (), False, ""),
    ('"ab"', (), False, ""),
    ('^"a"', (), False, "A"),
    ("'a'..'b'", (), False, "A"),
    ("'a'..'a'", (), False, "A"),
    ("ANY", (), False, ""),
    ("SOI", (), True, ""),
    ("EOI", (), True, ""),
    ("ASCII_DIGIT", (), False, "1"),
    ("NEWLINE", (), False, "\n"),
    ("nr", ("nr",), False, ""),
    ("sr", ("sr",), False, ""),
    ("sn", ("sn", "nr"), False, ""),
    ("ar", ("ar", "nr"), False, ""),
    ("cr", ("cr", "nr"), False, ""),
    ("xr", ("xr", "nr"), False, ""),
    ("ac", ("ac", "nr", "cr"), False, ""),
    ("ax", ("ax", "nr", "xr"), False, ""),
    ('PUSH_LITERAL("a")', (), True, ""),
    ('PUSH("a")', (), False, ""),
    ("PUSH(nr)", ("nr",), False, ""),
    ("PEEK", (), True, ""),
    ("POP", (), True, ""),
    ("DROP", (), True, ""),
    ("PEEK_ALL", (), True, ""),
    ("POP_ALL", (), True, ""),
    ("PEEK[..]", (), True, ""),
    ("PEEK[0..1]", (), True, ""),
    ("PEEK[-1..]", (), True, ""),
    ("PEEK[1..]", (), True, ""),
    ("PEEK[..-1]", (), True, ""),
    ("PEEK[..0]", (), True, ""),      # an end bound that is literally 0: the empty slice, not "no bound"
    ("PEEK[0..0]", (), True, ""),
    ("PEEK[-2..0]", (), True, ""),
    ("PEEK[0..]", (), True, ""),
    # bounds beyond the depth of the stack (at most two entries in the kernel's contexts): clamped like Python slices
    ("PEEK[-3..]", (), True, ""),
    ("PEEK[..-3]", (), True, ""),
    ("PEEK[-3..-1]", (), True, ""),
    ("PEEK[2..]", (), True, ""),
    ("PEEK[..3]", (), True, ""),
    ("PEEK[-1..-3]", (), True, ""),
    # the empty string on the stack, and the stack observed right after a conditional push
    ('PUSH("a"?) ~ PEEK', (), True, ""),
    ('PUSH("a"*) ~ PEEK_ALL', (), True, ""),
    ('PUSH("a"?) ~ POP', (), True, ""),
    ('PUSH("b"?) ~ PUSH("a") ~ PEEK[..]', (), False, ""),
    ('PUSH("a")? ~ PEEK_ALL', (), True, ""),
    ('SOI ~ "a"', (), False, ""),
    ('"a" ~ EOI', (), False, ""),
]

# context: format string with {x}, nullable as a function of x's nullability,
# needs_consuming: the body must not be nullable (repetition), helpers used
CONTEXTS: list[tuple[str, str, bool, tuple[str, ...]]] = [
    # (template, nullability: 'x' same as body | 'y' always nullable | 'n' never, body must consume, helpers)
    ("{x}", "x", False, ()),
    ('{x} ~ "b"', "n", False, ()),
    ('"a" ~ {x}', "n", False, ()),
    ('{x} | "b"', "x", False, ()),
    ('"ab" | {x}', "x", False, ()),
    ("{x}?", "y", False, ()),
    ("{x}*", "y", True, ()),
    ("{x}+", "x", True, ()),
    ("{x}{{2}}", "x", False, ()),
    ("{x}{{1,}}", "x", True, ()),
    ("{x}{{,2}}", "y", False, ()),
    ("{x}{{1,2}}", "x", False, ()),
    ("&{x} ~ ANY", "n", False, ()),
    ("!{x} ~ ANY", "n", False, ()),
    ("PUSH({x}) ~ POP", "x", False, ()),
    ("#tt = ({x})", "x", False, ()),
    ('{x}+ ~ "b"', "n", True, ()),
    ("({x})", "x", False, ()),
    ("({x})?", "y", False, ()),
    ('PUSH("a") ~ {x}', "n", False, ()),
    ('PUSH_LITERAL("b") ~ PUSH("a") ~ {x}', "n", False, ()),
    # two entries on the stack and nothing consumed yet: the stack is matched at the very position parsing began
    ('PUSH_LITERAL("b") ~ PUSH_LITERAL("a") ~ {x} ~ "b"?', "x", False, ()),
    ('({x} ~ "b") | {x}', "x", False, ()),
    ("nb ~ {x} ~ nb", "n", False, ("nb",)),
    # a tag directly on the operand (a tagged REFERENCE when the operand is a rule name), followed by a
    # non-silent rule that must not inherit a tag nobody consumed
    ("#tt = {x} ~ nb?", "x", False, ("nb",)),
]

START_MODS = ["", "_", "@", "$", "!"]

TRIVIA: list[tuple[str, str, str]] = [
    # (label, rules text, extra alphabet)
    ("none", "", ""),
    ("ws", 'WHITESPACE = _{ " " }', " "),
    ("ws-choice", 'WHITESPACE = _{ " " | "\\t" }', " "),
    ("ws-pair", 'WHITESPACE = { " " }', " "),
    ("ws-seq", 'WHITESPACE = _{ " " ~ "#" }', " #"),
    ("cm", 'COMMENT = _{ "#" ~ (!"#" ~ ANY)* ~ "#" }', "#"),
    ("cm-pair", 'COMMENT = { "#" ~ "a"* ~ "#" }', "#"),
    ("both", 'WHITESPACE = _{ " " }\nCOMMENT = _{ "#" ~ "b"* ~ "#" }', " #"),
    ("both-pair", 'WHITESPACE = { " " }\nCOMMENT = { "#" }', " #"),
    ("overlap", 'WHITESPACE = _{ " " }\nCOMMENT = _{ " #" }', " #"),
    # implicit rules that call other rules: their bodies are matched atomically, silent or not
    ("ws-calls", 'WHITESPACE = _{ sp }\nsp = { " " }', " "),
    ("ws-calls-compound", 'WHITESPACE = _{ sp }\nsp = ${ " " ~ sq? }\nsq = { "#" }', " #"),
    # implicit rules with a modifier of their own: still matched atomically, unless `$`
    ("cm-bang", 'COMMENT = !{ "#" ~ "b"* ~ "#" }\nWHITESPACE = _{ " " }', " #"),
    ("ws-bang", 'WHITESPACE = !{ " " ~ "#"? }\nCOMMENT = _{ "b#" }', " #"),
    ("ws-at", 'WHITESPACE = @{ " " ~ sp? }\nsp = { "#" }', " #"),
    ("cm-dollar", 'COMMENT = ${ "#" ~ sq* ~ "#" }\nsq = { "b" }\nWHITESPACE = _{ " " }', " #"),
    ("cm-only-calls-nonatomic", 'COMMENT = _{ "#" ~ cq ~ "#"? }\ncq = !{ "b" ~ "b"? }', "#"),
    ("cm-calls-nonatomic", 'COMMENT = _{ "#" ~ cq }\ncq = !{ "b" ~ "b"? }\nWHITESPACE = { sp }\nsp = { " " }', " #"),
]


def g1_space(depth: int = 2):
    """Yield (label, body text, helpers, extra alphabet) for all context nestings to `depth`."""
    for atom, helpers, nullable, extra in ATOMS:
        level = [(atom, tuple(helpers), nullable, atom)]
        yield from ((lab, body, hs, extra) for body, hs, _n, lab in level)
        for _d in range(depth):
            nxt = []
            for body, hs, nl, lab in level:
                for tmpl, nul, consuming, chelp in CONTEXTS[1:]:
                    if consuming and nl:
                        continue
                    b = tmpl.format(x=body if (_is_atomic_text(body) or "({x})" in tmpl) else f"({body})")
                    n2 = nl if nul == "x" else (nul == "y")
                    nxt.append((b, tuple(sorted(set(hs) | set(chelp))), n2, f"{lab} in [{tmpl}]"))
            yield from ((lab, body, hs, extra) for body, hs, _n, lab in nxt)
            level = nxt


def _is_atomic_text(b: str) -> bool:
    return all(ch.isalnum() or ch in "_\"'^.[]-" for ch in b) or (b.startswith("PUSH") and b.count("(") == 1 and b.endswith(")"))


def helper_closure(hs: tuple[str, ...]) -> list[str]:
    need = set(hs)
    if "ar" in need or "cr" in need or "xr" in need or "ac" in need or "ax" in need or "sn" in need:
        need.add("nr")
    if "ac" in need:
        need.add("cr")
    if "ax" in need:
        need.add("xr")
    return [HELPERS[h] for h in sorted(need)]


def g1_grammar(body: str, hs: tuple[str, ...], mod: str, trivia_rules: str) -> str:
    parts = [f"start = {mod}{{ {body} }}"] + helper_closure(hs)
    if trivia_rules:
        parts.append(trivia_rules)
    return "\n".join(parts) + "\n"


def alphabet_for(extra: str, trivia_extra: str, limit: int = 5) -> str:
    base = "ab"
    out = base
    for ch in extra + trivia_extra:
        if ch not in out:
            out += ch
    return out[:limit] if len(out) > limit else out


def all_strings(alphabet: str, maxlen: int):
    for n in range(maxlen + 1):
        for tup in itertools.product(alphabet, repeat=n):
            yield "".join(tup)


def g1_cases(seed: int, n_grammars: int | None, depth: int = 2, maxlen: int = 4):
    """List of case dicts. With n_grammars=None the whole space (thorough); otherwise a seeded
    sample that always contains every (atom, context) pair at depth 1."""
    rng = random.Random(seed)
    bodies = list(g1_space(depth))
    d1 = [b for b in bodies if b[0].count(" in [") <= 1]
    deep = [b for b in bodies if b[0].count(" in [") > 1]
    combos = []
    for lab, body, hs, extra in d1:
        # depth <= 1: every trivia configuration, start modifiers sampled
        for tlabel, trules, textra in TRIVIA:
            combos.append((lab, body, hs, extra, rng.choice(START_MODS), tlabel, trules, textra))
    if n_grammars is None:
        for lab, body, hs, extra in deep:
            for tlabel, trules, textra in TRIVIA:
                for mod in START_MODS:
                    combos.append((lab, body, hs, extra, mod, tlabel, trules, textra))
    else:
        # quick tier: the depth<=1 kernel is complete in (atom, context); each pair runs without trivia
        # and under two seeded trivia configurations; the rest of the budget samples depth 2
        keep = []
        for lab, body, hs, extra in d1:
            for tlabel, trules, textra in [TRIVIA[0]] + rng.sample(TRIVIA[1:], 2):
                keep.append((lab, body, hs, extra, rng.choice(START_MODS), tlabel, trules, textra))
        for _ in range(n_grammars):
            lab, body, hs, extra = rng.choice(deep)
            tlabel, trules, textra = rng.choice(TRIVIA)
            keep.append((lab, body, hs, extra, rng.choice(START_MODS), tlabel, trules, textra))
        combos = keep
    cases = []
    for lab, body, hs, extra, mod, tlabel, trules, textra in combos:
        alpha = alphabet_for(extra, textra)
        ml = maxlen if len(alpha) <= 3 else maxlen - 1
        cases.append({
            "family": "G1",
            "label": f"{lab} / start {mod or 'normal'} / trivia {tlabel}",
            "grammar": g1_grammar(body, hs, mod, trules),
            "rules": ["start"],
            "alphabet": alpha,
            "maxlen": ml,
        })
    return cases


# --------------------------------------------------------------------------- G2

class G2:
    """Seeded random well-formed grammars. Well-formedness is by construction:
    rule i may reference rule j <= i only after consuming input (guarded), so there is no left
    recursion; repetition bodies are non-nullable."""

    def __init__(self, rng: random.Random, core_only: bool = False, stack: bool = False,
                 trivia: bool = True, modifiers: bool = True) -> None:
        self.rng = rng
        self.core_only = core_only
        self.stack = stack
        self.trivia = trivia
        self.modifiers = modifiers

    def grammar(self) -> dict:
        rng = self.rng
        n = rng.randint(1, 5)
        names = [f"r{i}" for i in range(n)]
        self.names = names
        self.rule_nullable = {}
        rules = []
        mods = {}
        for i, nm in enumerate(names):
            self.idx = i
            depth = rng.randint(1, 4)
            body, _nul = self.expr(depth, first=True)
            self.rule_nullable[nm] = _nul
            mod = ""
            if self.modifiers and rng.random() < 0.5:
                mod = rng.choice(["_", "@", "$", "!"])
            mods[nm] = mod
            rules.append(f"{nm} = {mod}{{ {body} }}")
        alpha = "ab"
        tcfg = "none"
        if self.trivia and rng.random() < 0.6:
            tlabel, trules, textra = rng.choice(TRIVIA[1:])
            rules.append(trules)
            tcfg = tlabel
            for ch in textra:
                if ch not in alpha:
                    alpha += ch
        if any("ASCII_DIGIT" in r for r in rules):
            alpha += "1"
        return {
            "family": "G2",
            "label": f"random n={n} trivia={tcfg}",
            "grammar": "\n".join(rules) + "\n",
            "rules": names[:2] if n > 1 else names,
            "alphabet": alpha[:5],
            "maxlen": 4 if len(alpha) <= 3 else 3,
        }

    # returns (text, nullable)
    def atom(self, first: bool) -> tuple[str, bool]:
        rng = self.rng
        choices = ['"a"', '"b"', '"ab"', '^"a"', "'a'..'b'", "ANY", "ASCII_DIGIT"]
        weights = [6, 5, 3, 1, 2, 1, 1]
        r = rng.random()
        if r < 0.25:
            # a reference in a position where nothing has been consumed yet may only go
            # backwards (no left recursion); elsewhere any rule, including this one
            cands = self.names[: self.idx] if first else self.names
            if cands:
                nm = rng.choice(cands)
                return nm, self.rule_nullable.get(nm, True)
        if self.stack and r > 0.75:
            op = rng.choice(['PUSH("a")', 'PUSH("b")', 'PUSH_LITERAL("a")', "PEEK", "POP", "DROP",
                             "PEEK_ALL", "POP_ALL", "PEEK[..]", "PEEK[0..1]", "PEEK[-1..]"])
            return op, not op.startswith('PUSH("')
        if not self.core_only and r > 0.95:
            return rng.choice(["SOI", "EOI"]), True
        if r > 0.93:
            return "EOI", True
        return rng.choices(choices, weights)[0], False

    def expr(self, depth: int, first: bool) -> tuple[str, bool]:
        rng = self.rng
        if depth <= 0:
            return self.atom(first)
        k = rng.random()
        if k < 0.30:
            n = rng.randint(2, 3)
            parts = []
            nul = True
            f = first
            for _ in range(n):
                t, nl = self.expr(depth - 1, f)
                parts.append(self.paren(t))
                nul = nul and nl
                f = f and nl
            return " ~ ".join(parts), nul
        if k < 0.50:
            n = rng.randint(2, 3)
            parts = []
            nul = False
            for _ in range(n):
                t, nl = self.expr(depth - 1, first)
                parts.append(self.paren(t, choice=True))
                nul = nul or nl
            return " | ".join(parts), nul
        if k < 0.80:
            t, nl = self.expr(depth - 1, first)
            op = rng.choice(["?", "*", "+", "{2}", "{1,}", "{,2}", "{1,2}", "{2,3}"])
            if op in ("*", "+", "{1,}") and nl:
                op = "?"
            nul = nl or op in ("?", "*", "{,2}")
            if _is_atomic_text(t) and rng.random() < 0.6:
                return f"{t}{op}", nul
            return f"({t}){op}", nul
        if k < 0.90:
            t, _nl = self.expr(depth - 1, first)
            if _is_atomic_text(t) and rng.random() < 0.6:
                return f"{rng.choice('&!')}{t}", True
            return f"{rng.choice('&!')}({t})", True
        if self.stack and k < 0.95:
            t, nl = self.expr(depth - 1, first)
            return f"PUSH({t})", nl
        if not self.core_only and k < 0.93:
            t, nl = self.expr(depth - 1, first)
            return f"#tg = ({t})", nl
        return self.atom(first)

    @staticmethod
    def paren(t: str, choice: bool = False) -> str:
        if " | " in t or (choice and " ~ " in t) or t.startswith("#"):
            return f"({t})"
        return t


def g2_cases(seed: int, n: int, **kw) -> list[dict]:
    rng = random.Random(seed)
    out = []
    for _ in range(n):
        out.append(G2(rng, **kw).grammar())
    return out


# --------------------------------------------------------------------------- optimizer-biased family

PASS_NAMES = ["unroll", "skip", "inline built-in", "squash_choice", "inline silent"]


def opt_cases(seed: int, n: int) -> list[dict]:
    """Grammars built around the optimizer's rewrite triggers, each with a pass configuration:
    the default pipeline, a single pass, or a seeded subset / permutation / repetition."""
    rng = random.Random(seed)
    lits = ['"a"', '"ab"', '"abc"', '"b"', '"ba"', '^"a"', '^"ab"', '^"B"', "'a'..'b'", "'b'..'c'", "ASCII_DIGIT",
            "NEWLINE", '"k"', '^"k"', '"ß"', '^"ß"', '"a" | "b"', "LETTER"]
    cases = []
    for i in range(n):
        k = i % 8
        rules = []
        alpha = "ab"
        if k == 0:      # choices of literals sharing prefixes, in every order
            alts = rng.sample(lits, rng.randint(2, 5))
            body = " | ".join(a if " | " not in a else f"({a})" for a in alts)
            tail = rng.choice(["", ' ~ "b"', ' ~ "c"', "+", "*"])
            rules.append(f"start = {rng.choice(['', '@', '$'])}{{ ({body}){tail} }}")
            alpha = "abck"[: rng.randint(2, 4)]
        elif k == 1:    # skip-until shapes, inside and outside atomic rules, with and without trivia
            stop = rng.choice(['"b"', '("b" | "ab")', 'stop', '("b" | stop)', '""', '("a" | "b")', '("ab" | "ca")',
                               '("c" | "bcd")', '("b" | "a")', 'upto', '("b" | upto)'])
            mod = rng.choice(["", "@", "$", "!", "_"])
            head = rng.choice(['"a"? ~ ', "", ""])
            rules.append(f'start = {mod}{{ {head}(!{stop} ~ ANY)* ~ "b"? }}')
            alpha = "abcd"[: rng.randint(2, 4)]
            rules.append('stop = { "ba" }')
            # an operand that is itself a skip-until is not a literal; defined first so that it is rewritten first
            rules.insert(0, f'upto = {rng.choice(["@", "", "$"])}{{ (!"a" ~ ANY)* }}')
        elif k == 2:    # silent rules referenced under every modifier; tags
            rules.append(f'start = {rng.choice(["", "@", "$", "!"])}{{ {rng.choice(["", "#tg = "])}sil ~ "b"? ~ nr* }}')
            rules.append(f'sil = {rng.choice(["_", "_"])}{{ "a" ~ {rng.choice(["nr", "\"b\"", "sil2"])} }}')
            rules.append('sil2 = _{ "a" | "b" ~ "a" }')
            rules.append('nr = { "a" | "b" }')
        elif k == 3:    # explicit references to trivia rules
            rules.append(f'start = {rng.choice(["", "@", "$"])}{{ "a" ~ WHITESPACE ~ "b" ~ COMMENT? }}')
        elif k == 4:    # every bounded repetition form around sequences
            op = rng.choice(["+", "{2}", "{1,}", "{,2}", "{1,2}", "{0,1}", "{2,3}"])
            if rng.random() < 0.35:   # a tagged group under the repetition: every iteration carries the tag
                rules.append(f'start = {rng.choice(["", "@", "!"])}{{ #tg = (nr ~ "b"?){op} ~ "a"* }}')
                rules.append('nr = { "a" }')
            else:
                rules.append(f'start = {rng.choice(["", "@", "!"])}{{ ("a" ~ "b"?){op} ~ "a"* }}')
        elif k == 6:    # choices nested through silent rules that inlining flattens
            inner = rng.choice(['"a" | nb', 'nb | "a"', '"a" | "ab" | nb', "'b'..'a' | \"a\"", '"a" | (nb | "b")'])
            rules.append(f'start = {{ (sil | {rng.choice(lits[:8])})+ }}')
            rules.append(f'sil = _{{ {inner} }}')
            rules.append('nb = { "bb" }')
        elif k == 7:    # reversed and nested ranges inside squashable choices
            parts = rng.sample(["'z'..'a'", "'a'..'c'", "'b'..'b'", "'c'..'a'", '"x"', "'a'..'z'", "'c'..'d'", '"b"',
                                "ASCII_DIGIT", "'0'..'5'", "'3'..'4'"], rng.randint(2, 4))
            rules.append(f'start = {{ ({" | ".join(parts)})+ ~ "!"? }}')
            alpha = "abcx3"
        else:           # whitespace shapes the skip-rule fusion looks at
            rules.append('start = { "a" ~ "b" ~ ("a" | "b")* }')
        trivia = rng.choice(TRIVIA) if k != 3 else rng.choice(TRIVIA[1:])
        if k == 5:
            trivia = rng.choice([
                ("ws-choice3", 'WHITESPACE = _{ " " | "\\t" | NEWLINE }', " \n"),
                ("ws-overlap", 'WHITESPACE = _{ " " | "  " | "a " }', " "),
                ("ws-ci", 'WHITESPACE = _{ " " | ^"x" | "xy" }', " x"),
                ("cm-only", 'COMMENT = _{ "#" ~ (!"#" ~ ANY)* ~ "#" }', "#"),
                ("ws-nonsilent-choice", 'WHITESPACE = { " " | "\\t" }', " "),
            ])
        if k == 3 and "COMMENT" not in trivia[1]:
            rules.append('COMMENT = _{ "#" }')
            alpha += "#"
        if k == 3 and "WHITESPACE" not in trivia[1]:
            rules.append('WHITESPACE = _{ " " ~ " "? }')
            alpha += " "
        if trivia[1]:
            rules.append(trivia[1])
        for ch in trivia[2]:
            if ch not in alpha:
                alpha += ch
        r = rng.random()
        if r < 0.4:
            passes = None
        elif r < 0.7:
            passes = [rng.choice(PASS_NAMES)]
        elif r < 0.85:
            passes = rng.sample(PASS_NAMES, len(PASS_NAMES))          # a permutation of the whole pipeline
        else:
            passes = [rng.choice(PASS_NAMES) for _ in range(rng.randint(0, 6))]
        alpha = alpha[:5]
        cases.append({
            "family": "OPT",
            "label": f"optimizer trigger kind {k} trivia {trivia[0]} passes {passes if passes is not None else 'default'}",
            "grammar": "\n".join(rules) + "\n",
            "rules": ["start"],
            "alphabet": alpha,
            "maxlen": 4 if len(alpha) <= 3 else 3,
            "passes": passes,
        })
    return cases



# --------------------------------------------------------------------------- stack histories as grammars

def squash_order_cases() -> list[dict]:
    """Deterministic: every ordered pair, and a fixed slice of the ordered triples, of squashable alternatives
    (sensitive / insensitive, one or more characters, prefixes of each other, a range): the regex the optimizer
    builds groups alternatives, so each order must either be refused or pick the same alternative."""
    pool = ['"a"', '"ab"', '"abc"', '^"a"', '^"ab"', '^"AB"', '^"abc"', "'a'..'c'", '"b"', '"bc"', '^"B"',
            '^"\\u{212A}"', '^"\\u{130}"']      # non-ASCII letters whose case mappings reach into ASCII
    cases = []
    combos = [(x, y) for x in pool for y in pool if x != y]
    tri = [(x, y, z) for x in pool[:8] for y in pool[:8] for z in pool[:8] if len({x, y, z}) == 3]
    combos += tri[::3]
    for alts in combos:
        g = f'start = {{ w ~ "c"? }}\nw = {{ {" | ".join(alts)} }}\n'
        cases.append({"family": "OPT", "label": "order of squashable alternatives", "grammar": g, "rules": ["start", "w"],
                      "alphabet": "abcAB" + ("kK\u212a" if "212A" in g else "") + ("iI\u0130\u0307" if "{130}" in g else ""),
                      "maxlen": 3 if "u{" not in g else 2, "starts": "zero", "passes": None})
    return cases


def skip_trivia_cases() -> list[dict]:
    """Deterministic product: every trivia configuration x rule modifier x stop shape for (!stop ~ ANY)*,
    default optimizer: the skip rewrite must only happen where implicit trivia is off."""
    cases = []
    for tlabel, trules, textra in TRIVIA:
        for mod in START_MODS:
            for stop in ('"b"', '("b" | "ab")', "stop", '("a" | "b")', '("ab" | "b")'):
                # the scanned region is a pair of its own, so that what the loop consumed shows in the tree
                g = (f'start = {{ "a"? ~ body ~ "b"? }}\nbody = {mod}{{ (!{stop} ~ ANY)* }}\nstop = {{ "ba" }}\n'
                     + (trules + "\n" if trules else ""))
                cases.append({"family": "OPT", "label": f"skip-until under trivia {tlabel} / start {mod or 'normal'}",
                              "grammar": g, "rules": ["start"], "alphabet": alphabet_for("", textra)[:4],
                              "maxlen": 4, "starts": "zero", "passes": None})
    return cases


def skip_rep_cases() -> list[dict]:
    """Deterministic: the skip-until trigger `(!stop ~ ANY)` under EVERY repetition operator (only `*` may be
    rewritten), with the pass lists in which "skip" sees the operator before / after / without "unroll"."""
    cases = []
    for op in ("*", "+", "?", "{2}", "{1,}", "{,2}", "{1,2}", "{0}"):
        for passes in (None, ["skip"], ["skip", "unroll"], ["unroll", "skip"], ["skip", "skip"]):
            for mod, trules, textra in (("@", "", ""), ("$", 'WHITESPACE = _{ " " }', " "), ("", "", ""),
                                        ("", 'WHITESPACE = _{ " " }', " ")):
                for stop in ('"b"', '("b" | "ab")'):
                    g = (f'start = {{ "a"? ~ body ~ "b"? }}\nbody = {mod}{{ (!{stop} ~ ANY){op} }}\n'
                         + (trules + "\n" if trules else ""))
                    cases.append({"family": "OPT", "label": f"skip-until trigger under {op} / passes {passes}",
                                  "grammar": g, "rules": ["start", "body"], "alphabet": alphabet_for("", textra)[:3],
                                  "maxlen": 4, "starts": "zero", "passes": passes})
    return cases


def rule_name_cases() -> list[dict]:
    """Deterministic: rule names that meet the names a generated module uses itself (members of its Rule enum are
    upper-cased rule names; rule functions are parse_<rule>; module-level helpers): names that differ only in case,
    _sunder_ / __dunder__ names, `trivia`, names of the prelude."""
    cases = []
    for n1, n2 in (("a", "A"), ("_x_", "X"), ("__x__", "x_"), ("trivia", "parse"), ("inner", "state"),
                   ("pairs", "matched"), ("Rule", "Pair"), ("rule_frame", "RULE_FRAME")):
        for trules, textra in (("", ""), ('WHITESPACE = _{ " " }', " ")):
            g = (f'start = {{ {n1} ~ {n2}? ~ "b" }}\n{n1} = {{ "a" }}\n{n2} = {{ "ab" | "a" }}\n'
                 + (trules + "\n" if trules else ""))
            cases.append({"family": "OPT", "label": f"rule names {n1} / {n2}", "grammar": g,
                          "rules": ["start", n1, n2], "alphabet": alphabet_for("", textra)[:3],
                          "maxlen": 4, "starts": "zero", "passes": None})
    return cases


def skip_after_squash_cases() -> list[dict]:
    """Deterministic: the skip-until trigger whose stop set is a choice with case-insensitive literals, written in
    place or behind a rule, under pass lists in which "squash_choice" (or "inline silent") runs BEFORE "skip", so
    that `_skip` meets the product of an earlier pass."""
    cases = []
    stops = ('(^"b" | "ab")', '(^"ab" | "b")', '("b" | ^"a")', "stop", "(stop | \"ab\")")
    for stop in stops:
        for passes in (["squash_choice", "skip"], ["squash_choice", "skip", "unroll"],
                       ["inline silent", "squash_choice", "skip"], ["squash_choice", "inline silent", "skip"],
                       ["inline built-in", "squash_choice", "skip"]):
            for mod in ("@", "$", ""):
                for sdef in ('stop = { ^"b" | "ab" }', 'stop = _{ ^"b" | "ab" }'):
                    g = f'start = {{ "a"? ~ body ~ ANY* }}\nbody = {mod}{{ (!{stop} ~ ANY)* }}\n{sdef}\n'
                    cases.append({"family": "OPT", "label": f"skip after squash / passes {passes}", "grammar": g,
                                  "rules": ["start", "body"], "alphabet": "abAB", "maxlen": 3, "starts": "zero",
                                  "passes": passes})
    return cases


def skip_name_cases() -> list[dict]:
    """Deterministic: a grammar rule that happens to be called SKIP (the name the optimizer gives its fused trivia
    rule) under every trivia configuration: it must stay an ordinary rule — never matched implicitly, never replaced."""
    cases = []
    for tlabel, trules, textra in TRIVIA:
        for smod in ("", "_", "@"):
            for body in ('SKIP ~ "b"', '"a" ~ "b" ~ SKIP?', '"a" ~ (SKIP | "b")* ~ "a"'):
                g = (f'start = {{ {body} }}\nSKIP = {smod}{{ "x" }}\n' + (trules + "\n" if trules else ""))
                cases.append({"family": "OPT", "label": f"user rule named SKIP under trivia {tlabel}",
                              "grammar": g, "rules": ["start", "SKIP"], "alphabet": alphabet_for("abx", textra)[:5],
                              "maxlen": 4, "starts": "zero", "passes": None})
    return cases


def stack_cases(seed: int, n: int) -> list[dict]:
    """Grammars that drive the user stack through nested backtracking: two or three nested
    optional / choice / predicate / repetition constructs whose bodies mix DROP, POP, PUSH,
    PUSH_LITERAL and POP_ALL, the outer ones forced to fail after the inner ones committed,
    followed by an observation of the whole stack (POP ~ POP ..., PEEK_ALL, PEEK[..])."""
    rng = random.Random(seed)
    ops = ["DROP", "DROP", 'PUSH_LITERAL("c")', 'PUSH_LITERAL("a")', 'PUSH("b")', "POP", "PEEK", "POP_ALL", "PEEK[0..1]"]
    cases = []

    def seq(k):
        return " ~ ".join(rng.choice(ops) for _ in range(k))

    def block(depth):
        inner = block(depth - 1) if depth > 0 else ""
        body = seq(rng.randint(1, 3))
        if inner:
            body += " ~ " + inner
        if rng.random() < 0.5:
            body += " ~ " + seq(rng.randint(1, 2))
        tail = rng.choice([' ~ "!"', ' ~ "!"', "", ' ~ "b"'])
        kind = rng.random()
        if kind < 0.4:
            return f"({body}{tail})?"
        if kind < 0.6:
            return f"(({body}{tail}) | {seq(1)})"
        if kind < 0.75:
            return f"&({body}{tail})"
        if kind < 0.9:
            return f"!({body}{tail})"
        return f"({body}{tail}){{,2}}"

    for _ in range(n):
        pushes = " ~ ".join(rng.choice(['PUSH_LITERAL("a")', 'PUSH_LITERAL("b")', 'PUSH("a")', 'PUSH_LITERAL("c")'])
                            for _ in range(rng.randint(1, 3)))
        obs = rng.choice(["POP ~ POP ~ EOI", "PEEK_ALL ~ EOI", "POP_ALL ~ EOI", "POP ~ POP?", "PEEK[..] ~ EOI",
                          "POP ~ POP ~ POP? ~ EOI"])
        g = f"start = {{ {pushes} ~ {block(rng.randint(1, 2))} ~ {obs} }}\n"
        if rng.random() < 0.3:
            g += 'WHITESPACE = _{ " " }\n'
        cases.append({"family": "STACK", "label": "nested backtracking over stack operations",
                      "grammar": g, "rules": ["start"], "alphabet": "abc!", "maxlen": 4, "starts": "zero"})
    # implicit rules with side effects on the stack: whatever trivia does must be undone when the trivia is given
    # back (after the last iteration of a repetition, in a failed alternative, inside a predicate)
    triv = ['WHITESPACE = { PUSH(" ") }', 'WHITESPACE = _{ " " ~ PUSH_LITERAL("c") }', 'WHITESPACE = { " " ~ DROP }',
            'WHITESPACE = _{ " " }\nCOMMENT = { PUSH("#") }', 'COMMENT = _{ "#" ~ PUSH_LITERAL("a") }',
            'WHITESPACE = _{ " " }\nCOMMENT = ${ "#" ~ POP }']
    shapes = ['"a"* ~ {t}', '("a" ~ "b")* ~ {t}', '("a"+ ~ "!")? ~ {t}', '("a" ~ "a" | "a") ~ {t}', '"a"{{1,3}} ~ {t}',
              '&("a" ~ "a") ~ "a"* ~ {t}', '!("a" ~ "b") ~ "a"{{2,}} ~ {t}', '("a" | "b")+ ~ {t}']
    tails = ['tail', '"b" ~ tail', 'PEEK_ALL ~ EOI', 'tail?  ~ "b"*']
    for _ in range(max(8, n // 6)):
        w = rng.choice(triv)
        sh = rng.choice(shapes).format(t=rng.choice(tails))
        pre = rng.choice(["", 'PUSH_LITERAL("a") ~ ', 'PUSH_LITERAL("c") ~ PUSH_LITERAL("a") ~ '])
        g = (f"start = {{ {pre}{sh} }}\n" + 'tail = @{ "b"? ~ PEEK_ALL ~ EOI }\n' + w + "\n")
        cases.append({"family": "STACK", "label": "implicit rules with stack side effects around backtracking",
                      "grammar": g, "rules": ["start"], "alphabet": "ab #c", "maxlen": 4, "starts": "zero"})
    return cases
