"""C18: PrattParser.parse_expr vs the extracted model (coq/Pratt.v) and vs an independent
reference (brute force over all bracketings is replaced by a precedence-climbing oracle
written from the property, not from the code: fully parenthesised printing + re-reading)."""

from __future__ import annotations

import itertools
import multiprocessing as mp
import random

from common import NCPU, Driver

_drv = None


def _init():
    global _drv
    _drv = Driver()


class Stub:
    __slots__ = ("name", "val")

    def __init__(self, name, val):
        self.name = name
        self.val = val


def make_parser(pre, post, inf):
    from pest.pratt import PrattParser

    class P(PrattParser):
        PREFIX_OPS = {f"e{o}": p for o, p in pre.items()}
        POSTFIX_OPS = {f"o{o}": p for o, p in post.items()}
        INFIX_OPS = {f"i{o}": (p, ra) for o, (p, ra) in inf.items()}

        def parse_primary(self, pair):
            if not pair.name.startswith("a"):
                raise SyntaxError("operand expected")
            return pair.name

        def parse_prefix(self, op, rhs):
            return f"({op.name} {rhs})"

        def parse_postfix(self, lhs, op):
            return f"({op.name} {lhs})"

        def parse_infix(self, lhs, op, rhs):
            return f"({op.name} {lhs} {rhs})"

    return P()


def run_impl(parser, toks):
    from pest.pairs import Stream
    st = Stream([Stub(t, None) for t in toks])
    try:
        t = parser.parse_expr(st)
    except SyntaxError:
        return "ERR"
    except Exception as e:  # noqa: BLE001
        return f"EXC {type(e).__name__}"
    return f"{t} {len(toks) - st.pos}"


# ---- independent oracle: the unique tree satisfying the declared precedences --------------
def oracle(pre, post, inf, toks):
    """Reference by exhaustive search: among all trees whose yield is `toks`, the ones in which
    every operator placement respects the declared precedences (no operator has, as the operand
    on a side where it competes, an unparenthesised sub-expression that binds more loosely).
    Returns the set of acceptable trees (as strings)."""
    n = len(toks)

    from functools import lru_cache

    @lru_cache(None)
    def trees(i, j):
        """all trees with yield toks[i:j], as (string, kind, op, prec, lspine_min, rspine)"""
        out = []
        if j - i == 1 and toks[i].startswith("a"):
            out.append((toks[i], "prim"))
        if j - i >= 2 and toks[i].startswith("e"):
            for r in trees(i + 1, j):
                out.append((f"({toks[i]} {r[0]})", "pre", toks[i], r))
        if j - i >= 2 and toks[j - 1].startswith("o"):
            for l in trees(i, j - 1):
                out.append((f"({toks[j - 1]} {l[0]})", "post", toks[j - 1], l))
        for k in range(i + 1, j - 1):
            if toks[k].startswith("i"):
                for l in trees(i, k):
                    for r in trees(k + 1, j):
                        out.append((f"({toks[k]} {l[0]} {r[0]})", "in", toks[k], l, r))
        return out

    def prec(t):
        k = t[1]
        if k == "pre":
            return pre[int(t[2][1:])]
        if k == "post":
            return post[int(t[2][1:])]
        if k == "in":
            return inf[int(t[2][1:])][0]
        return None

    # "binds tighter" as a direct reading of the property:
    #  * the right operand region of an operator with right-threshold m_r may only expose, on
    #    its LEFT spine, infix/postfix operators of precedence >= m_r
    #  * an operator of precedence q applied to a left operand l requires that no open operator
    #    on l's RIGHT spine could have taken it: q < every threshold on that spine
    def lspine_ok(t, m):
        while True:
            k = t[1]
            if k == "post":
                if post[int(t[2][1:])] < m:
                    return False
                t = t[3]
            elif k == "in":
                if inf[int(t[2][1:])][0] < m:
                    return False
                t = t[3]
            else:
                return True

    def rspine_ok(t, q):
        while True:
            k = t[1]
            if k == "pre":
                if q >= pre[int(t[2][1:])]:
                    return False
                t = t[3]
            elif k == "in":
                p, ra = inf[int(t[2][1:])]
                if q >= (p if ra else p + 1):
                    return False
                t = t[4]
            else:
                return True

    def ok(t, m):
        k = t[1]
        if k == "prim":
            return True
        if k == "pre":
            return ok(t[3], pre[int(t[2][1:])])
        if k == "post":
            q = post[int(t[2][1:])]
            return q >= m and ok(t[3], m) and rspine_ok(t[3], q)
        p, ra = inf[int(t[2][1:])]
        return p >= m and ok(t[3], m) and rspine_ok(t[3], p) and ok(t[4], p if ra else p + 1)

    return {t[0] for t in trees(0, n) if ok(t, 0)}


def wf_streams(maxlen, n_inf, n_pre, n_post):
    """All well-formed token streams (operand (infix operand)*) up to maxlen tokens, with up to
    two leading prefix and two trailing postfix operators per operand, drawn from the table's
    prefix / postfix operator kinds."""
    operands = []
    for npre in range(0, 3 if n_pre else 1):
        for pres in itertools.product(range(n_pre), repeat=npre):
            for npost in range(0, 3 if n_post else 1):
                for posts in itertools.product(range(n_post), repeat=npost):
                    operands.append([f"e{p}" for p in pres] + ["a1"] + [f"o{q}" for q in posts])
    out = []

    def rec(cur, length):
        out.append(cur)
        for o in range(n_inf):
            for opd in operands:
                L = length + 1 + len(opd)
                if L <= maxlen:
                    rec(cur + [f"i{o}"] + opd, L)

    for opd in operands:
        if len(opd) <= maxlen:
            rec(list(opd), len(opd))
    return out


def table_cmd(pre, post, inf):
    a = ",".join(f"{o}:{p}" for o, p in pre.items())
    b = ",".join(f"{o}:{p}" for o, p in post.items())
    c = ",".join(f"{o}:{p}:{1 if ra else 0}" for o, (p, ra) in inf.items())
    return f"{a} ; {b} ; {c} ; "


def chunk(tables_and_streams):
    bad = []
    n = 0
    for (pre, post, inf), streams, with_oracle in tables_and_streams:
        parser = make_parser(pre, post, inf)
        head = "R " + table_cmd(pre, post, inf)
        outs = _drv.ask_many([head + " ".join(s) for s in streams])
        for s, m in zip(streams, outs):
            n += 1
            r = run_impl(parser, s)
            if r != m:
                bad.append({"kind": "tie", "table": [pre, post, {k: list(v) for k, v in inf.items()}],
                            "stream": " ".join(s), "impl": r, "model": m})
            if with_oracle and len(s) <= 7:
                acc = oracle(pre, post, inf, tuple(s))
                if r == "ERR" or r.startswith("EXC"):
                    if acc:
                        bad.append({"kind": "property", "what": f"well-formed stream rejected ({r})",
                                    "table": [pre, post, {k: list(v) for k, v in inf.items()}], "stream": " ".join(s)})
                else:
                    tree, rest = r.rsplit(" ", 1)
                    if rest != "0":
                        bad.append({"kind": "property", "what": "parse_expr did not consume the whole expression",
                                    "table": [pre, post, {k: list(v) for k, v in inf.items()}], "stream": " ".join(s)})
                    elif tree not in acc:
                        bad.append({"kind": "property",
                                    "what": f"tree {tree} does not respect the declared precedences; acceptable: {sorted(acc)}",
                                    "table": [pre, post, {k: list(v) for k, v in inf.items()}], "stream": " ".join(s)})
                    elif len(acc) != 1:
                        bad.append({"kind": "tie", "what": f"oracle is ambiguous: {sorted(acc)}",
                                    "table": [pre, post, {k: list(v) for k, v in inf.items()}], "stream": " ".join(s)})
    return n, bad


def check(tier: str, seed: int):
    from checks import Result
    res = Result()
    rng = random.Random(seed)
    maxlen = 8 if tier == "thorough" else 7
    ntables = 1500 if tier == "thorough" else 260
    tables = []
    # systematic: 2 infix operators, precedences 1..3, both associativities, optional prefix/postfix 1..4
    systematic = []
    for (p0, p1) in itertools.product(range(1, 4), repeat=2):
        for (a0, a1) in itertools.product((False, True), repeat=2):
            for pp in (None, 1, 2, 3, 4):
                for qq in (None, 1, 2, 3, 4):
                    systematic.append(({0: pp} if pp else {}, {0: qq} if qq else {},
                                       {0: (p0, a0), 1: (p1, a1)}))
    rng.shuffle(systematic)
    tables += systematic[:ntables] if tier != "thorough" else systematic
    # tables with two prefix and two postfix operators of different precedences
    for _ in range(ntables // 3):
        tables.append(({0: rng.randint(1, 6), 1: rng.randint(1, 6)} if rng.random() < 0.7 else {0: rng.randint(1, 6)},
                       {0: rng.randint(1, 7), 1: rng.randint(1, 7)},
                       {0: (rng.randint(1, 5), rng.random() < 0.5), 1: (rng.randint(1, 5), rng.random() < 0.5)}))
    # random larger tables
    for _ in range(ntables // 4):
        n_inf = 3
        tables.append(({0: rng.randint(0, 6)} if rng.random() < 0.8 else {},
                       {0: rng.randint(0, 6)} if rng.random() < 0.8 else {},
                       {o: (rng.randint(0, 5), rng.random() < 0.5) for o in range(n_inf)}))
    work = []
    stream_cache = {}
    for pre, post, inf in tables:
        key = (len(inf), len(pre), len(post))
        if key not in stream_cache:
            stream_cache[key] = wf_streams(maxlen if len(pre) + len(post) <= 2 else maxlen - 1, len(inf), len(pre),
                                           len(post))
        streams = stream_cache[key]
        if len(streams) > 700:
            streams = rng.sample(streams, 700)
        # malformed streams: operator first, trailing operator, empty, two operands
        junk = [[], ["i0"], ["a1", "i0"], ["a1", "a1"], ["a1", "i0", "i0", "a1"]]
        if 0 in post:
            junk += [["o0"], ["a1", "o0", "a1"], ["a1", "i0", "o0"]]
        if 0 in pre:
            junk += [["e0"], ["a1", "e0"], ["e0", "i0", "a1"]]
        work.append([((pre, post, inf), streams, True), ((pre, post, inf), junk, False)])
    total = 0
    ctx = mp.get_context("fork")
    with ctx.Pool(NCPU, initializer=_init) as pool:
        for n, bad in pool.imap_unordered(chunk, work):
            total += n
            for b in bad:
                if b["kind"] == "tie":
                    res.tie_breaks.append(b)
                else:
                    res.violations.append({"what": b["what"], "replay": b})
    res.evaluations = total
    res.distinct_nontrivial = sum(1 for t in tables if len({p for p, _ in t[2].values()}) > 1 or t[0] or t[1])
    res.rule = (f"{len(tables)} operator tables (all tables over 2 infix operators x precedences 1..3 x both "
                "associativities x optional prefix/postfix operator with precedence 1..4, shuffled by seed; plus random "
                f"3-operator tables) x all well-formed token streams up to {maxlen} tokens (sampled to 700 per table) "
                "plus malformed streams; PrattParser subclass with tuple-building hooks on a Stream of stub pairs vs "
                "the extracted Coq model, and vs an oracle that enumerates ALL trees with the same yield and keeps "
                "those respecting the declared precedences (must be exactly the implementation's tree). "
                "Non-trivial = tables with a prefix/postfix operator or two distinct infix precedences.")
    res.samples = ["pre {0:6} post {0:5}: e0 a1 o0 -> (o0 (e0 a1))", "inf {0:(1,L),1:(2,L)} post {0:1}: a1 i1 a1 o0"]
    return res
