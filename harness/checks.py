"""Per-property checks. Each returns a Result; the `check` entry point turns it into
evidence, KNOWN-FINDING / VIOLATION lines and the exit status."""

from __future__ import annotations

import random
import time

import engine
import g3
import gen


class Result:
    def __init__(self) -> None:
        self.evaluations = 0
        self.distinct_nontrivial = 0
        self.rule = ""
        self.samples: list = []
        self.violations: list[dict] = []   # {"what": str, "replay": dict}
        self.tie_breaks: list[dict] = []   # correspondence disagreements (model vs code)
        self.extra: dict = {}
        self.exhaustive = False

    def add(self, agg: dict, judge_names: set[str]) -> None:
        self.evaluations += agg["evals"]
        self.distinct_nontrivial += agg["nontrivial"]
        for f in agg["fatal"]:
            self.tie_breaks.append({"what": "harness failure", "detail": f["fatal"][-2000:],
                                    "case": f.get("case", {}).get("label")})
        for v in agg["viol"]:
            if v["judge"] == "tie":
                self.tie_breaks.append(v)
            elif v["judge"] in judge_names:
                self.violations.append({"what": v["what"], "replay": v})
        d = self.extra.setdefault("distribution", {"grammars": 0, "cases": 0, "accepted": 0, "rejected": 0,
                                                   "excluded_nonterminating": 0, "grammar_load_errors": 0})
        d["grammars"] += agg["grammars"]
        d["cases"] += agg["cases"]
        d["accepted"] += agg["accepted"]
        d["rejected"] += agg["rejected"]
        d["excluded_nonterminating"] += agg["excluded"]
        d["grammar_load_errors"] += agg["build_errors"]
        if agg.get("slow_inputs"):
            self.extra["inputs_without_verdict_too_slow"] = self.extra.get("inputs_without_verdict_too_slow", 0) + agg["slow_inputs"]
        if "wf" in agg:
            wf = self.extra.setdefault("grammars_with_termination_certificate", {"certified": 0, "not_certified": 0})
            for kk in wf:
                wf[kk] += agg["wf"][kk]
        if "optcheck" in agg:
            oc = self.extra.setdefault("optimizer_outputs_validated", {"valid": 0, "invalid": 0, "changed": 0})
            for kk in oc:
                oc[kk] += agg["optcheck"][kk]
        if "passmodel" in agg:
            pmm = self.extra.setdefault("optimizer_pass_model_tie", {"same": 0, "diff": 0, "changed": 0, "outside_theorem_domain": 0})
            for kk in pmm:
                pmm[kk] += agg["passmodel"][kk]
        for lab in agg["labels"]:
            if len(self.samples) < 8:
                self.samples.append(lab)


def _sizes(tier: str, quick: int, thorough: int) -> int:
    return thorough if tier == "thorough" else quick


def corpus_cases(prop: str) -> list[dict]:
    """Minimised disagreements kept from earlier runs; they run first."""
    import json
    import os

    from common import VERIF
    path = os.path.join(VERIF, "corpus", f"{prop}.json")
    if os.path.exists(path):
        return json.load(open(path))
    return []


def parse_family(prop: str, tier: str, seed: int, families: list[tuple[str, dict]], judges: list[str],
                 opts: dict | None = None) -> Result:
    res = Result()
    names = set(judges)
    corp = corpus_cases(prop)
    if corp:
        res.add(engine.run_cases(corp, judges + ["TIE"], opts), names)
    for fam, kw in families:
        if fam == "G1":
            cases = gen.g1_cases(seed, **kw)
        elif fam == "G2":
            cases = gen.g2_cases(seed + 1, **kw)
        elif fam == "G3":
            cases = g3.g3_cases(seed + 2, **kw)
        else:
            cases = kw["cases"]
        o = dict(opts or {})
        if fam == "G3":
            o["fuel"] = 400000
        res.add(engine.run_cases(cases, judges + ["TIE"], o), names)
    return res


RULE_PARSE = ("cases = (grammar, start rule, input, start position); G1 = every expression kind in every "
              "nesting context x start modifier x trivia configuration with ALL inputs over the grammar's "
              "alphabet up to the length bound; G2 = seeded random well-formed grammars; G3 = bundled grammars "
              "with harvested and mutated inputs. A case is non-trivial when the reference semantics yields a "
              "non-empty tree or fails beyond the start position. evaluations = parse() calls on the "
              "implementation (4 modes).")


def c01(tier, seed):
    r = parse_family("C01", tier, seed, [
        ("G1", {"n_grammars": _sizes(tier, 700, 12000)}),
        ("G2", {"n": _sizes(tier, 500, 8000), "stack": True}),
        ("X", {"cases": gen.stack_cases(seed + 7, _sizes(tier, 400, 6000))}),
        ("X", {"cases": gen.skip_trivia_cases() + gen.skip_name_cases() + gen.rule_name_cases()
                         + gen.opt_cases(seed + 5, _sizes(tier, 150, 3000))}),
        ("G3", {}),
    ], ["C01"])
    r.rule = RULE_PARSE + " Judge: tree / furthest_pos of IG vs I and OG vs O; generated source loads; generate() twice is identical."
    return r


def c02(tier, seed):
    rng = random.Random(seed)
    g1 = gen.g1_cases(seed, _sizes(tier, 500, 8000))
    g2 = gen.g2_cases(seed + 1, _sizes(tier, 400, 6000), stack=True)
    for c in g1 + g2:
        r = rng.random()
        if r < 0.5:
            c["passes"] = None
        elif r < 0.75:
            c["passes"] = [rng.choice(gen.PASS_NAMES)]
        else:
            c["passes"] = [rng.choice(gen.PASS_NAMES) for _ in range(rng.randint(0, 6))]
    r = parse_family("C02", tier, seed, [
        ("X", {"cases": gen.opt_cases(seed + 5, _sizes(tier, 900, 12000))}),
        ("X", {"cases": g1 + g2 + gen.skip_trivia_cases() + gen.skip_name_cases() + gen.skip_rep_cases()
                         + gen.skip_after_squash_cases() + gen.squash_order_cases()}),
        ("G3", {}),
    ], ["C02"])
    r.rule = RULE_PARSE + (" Each grammar comes with an optimizer configuration: the default pipeline, one pass alone, or a "
                           "seeded subset / permutation / repetition of DEFAULT_OPTIMIZER_PASSES; a family of grammars is "
                           "built around the rewrite triggers. Judge: success/failure and tree of O vs I and of OG vs IG.")
    return r


def c03(tier, seed):
    cases = [c for c in gen.g1_cases(seed, _sizes(tier, 1400, 20000)) if core_only(c["grammar"])]
    r = parse_family("C03", tier, seed, [
        ("X", {"cases": cases}),
        ("G2", {"n": _sizes(tier, 700, 10000), "core_only": True, "trivia": False, "modifiers": False}),
    ], ["C03"])
    r.rule = RULE_PARSE + " Restricted to the core operators without trivia rules. Judge: success/failure and tree of every mode vs the extracted reference semantics."
    return r


def core_only(g: str) -> bool:
    bad = ("PUSH", "PEEK", "POP", "DROP", "WHITESPACE", "COMMENT", "#tt", "= @", "= $", "= !")
    return not any(b in g for b in bad)


def c04(tier, seed):
    cases = [c for c in gen.g1_cases(seed, _sizes(tier, 1600, 24000))
             if ("WHITESPACE" in c["grammar"] or "COMMENT" in c["grammar"] or "= @" in c["grammar"]
                 or "= $" in c["grammar"] or "= !" in c["grammar"])]
    r = parse_family("C04", tier, seed, [
        ("X", {"cases": cases}),
        ("G2", {"n": _sizes(tier, 600, 10000)}),
        ("X", {"cases": [c for c in gen.opt_cases(seed + 3, _sizes(tier, 300, 4000))
                         if "WHITESPACE" in c["grammar"] or "COMMENT" in c["grammar"]] + gen.skip_trivia_cases()
                  + gen.skip_name_cases()}),
    ], ["C04"])
    r.rule = RULE_PARSE + " Restricted to grammars with trivia rules and/or atomicity modifiers. Judge: every mode vs the reference semantics."
    return r


def c05(tier, seed):
    cases = [c for c in gen.g1_cases(seed, _sizes(tier, 1800, 24000))
             if any(k in c["grammar"] for k in ("PUSH", "PEEK", "POP", "DROP"))]
    r = parse_family("C05", tier, seed, [
        ("X", {"cases": cases}),
        ("X", {"cases": gen.stack_cases(seed + 7, _sizes(tier, 1500, 20000))}),
        ("G2", {"n": _sizes(tier, 500, 10000), "stack": True}),
    ], ["C05", "C07"])
    r.rule = RULE_PARSE + " Restricted to grammars using the stack operations. Judge: every mode vs the reference semantics, and no exception other than PestParsingError."
    return r


def c06(tier, seed):
    r = parse_family("C06", tier, seed, [
        ("G1", {"n_grammars": _sizes(tier, 500, 8000)}),
        ("G2", {"n": _sizes(tier, 400, 6000), "stack": True}),
        ("G3", {}),
    ], ["C06"])
    r.rule = RULE_PARSE + " Judge: the tree invariants of C06 evaluated on every tree returned by every mode (spans, order, nesting, names, tags, tokens(), flatten(), dump()/dumps())."
    return r


def c07(tier, seed):
    r = parse_family("C07", tier, seed, [
        ("G1", {"n_grammars": _sizes(tier, 600, 10000)}),
        ("G2", {"n": _sizes(tier, 500, 8000), "stack": True}),
        ("G3", {}),
    ], ["C07"], {"repeat": True})
    r.rule = RULE_PARSE + " Judge: no exception other than PestParsingError escapes any mode; the call repeated gives an equal result; every parse runs under a timer."
    return r


def c13(tier, seed):
    r = parse_family("C13", tier, seed, [
        ("G1", {"n_grammars": _sizes(tier, 450, 8000)}),
        ("G2", {"n": _sizes(tier, 350, 6000), "stack": True}),
        ("G3", {}),
    ], ["C13"])
    import c14
    r2 = c14.check("C13", tier, seed)
    r.evaluations += r2.evaluations
    r.distinct_nontrivial += r2.distinct_nontrivial
    r.violations += r2.violations
    r.tie_breaks += r2.tie_breaks
    r.rule = RULE_PARSE + (" Judge on every rejected input: furthest_pos in range, listed names are rules, str() "
                           "renders, line:col and source line are those of the position. Plus error_context(text, i) "
                           "for all small texts x all offsets vs the extracted model (LineCol.v).")
    return r


def c16(tier, seed):
    oc = [c for c in gen.opt_cases(seed + 9, _sizes(tier, 500, 6000)) if "SOI" not in c["grammar"]]
    oc += gen.skip_trivia_cases()
    for c in oc:
        c["starts"] = "all"
    r = parse_family("C16", tier, seed, [
        ("G1", {"n_grammars": _sizes(tier, 450, 8000)}),
        ("G2", {"n": _sizes(tier, 350, 6000), "stack": True}),
        ("X", {"cases": oc}),
    ], ["C16"])
    r.rule = RULE_PARSE + " Judge for SOI-free grammars and every k>0: parse(text, start_pos=k) vs parse(text[k:]) shifted, and with the prefix replaced."
    return r


def c09(tier, seed):
    import c09 as m
    return m.check(tier, seed)


def c14(tier, seed):
    import c14 as m
    return m.check("C14", tier, seed)


def c18(tier, seed):
    import c18 as m
    return m.check(tier, seed)


def c12(tier, seed):
    import c12 as m
    return m.check(tier, seed)


def c10(tier, seed):
    import c10 as m
    return m.check("C10", tier, seed)


def c11(tier, seed):
    import c10 as m
    return m.check("C11", tier, seed)


def c08(tier, seed):
    import c08 as m
    return m.check(tier, seed)


def c15(tier, seed):
    import c15 as m
    return m.check(tier, seed)


def c17(tier, seed):
    import c17 as m
    return m.check(tier, seed)


CHECKS = {"C17": c17, "C15": c15, "C08": c08, "C02": c02, "C10": c10, "C11": c11, "C12": c12, "C18": c18, "C09": c09, "C14": c14, "C01": c01, "C03": c03, "C04": c04, "C05": c05, "C06": c06, "C07": c07, "C13": c13, "C16": c16}
