"""C15: isolation, reuse and re-entrancy.

Seeded histories of creating parsers (optimized or not), generating modules, succeeding and
failing parses; the observed call's result must equal (a) the history-free model (extracted
reference semantics, mode I) and (b) the same call made in a fresh interpreter process.
Shared process-wide objects are fingerprinted before and after every operation.
Threads: concurrent parse() calls on shared parser objects vs the sequential results."""

from __future__ import annotations

import multiprocessing as mp
import random
import sys
import threading

from common import NCPU

GRAMMARS = [
    'start = { (ASCII_HEX_DIGIT | "x")+ ~ "!"? }\n',
    'start = { ASCII_ALPHANUMERIC+ ~ NEWLINE }\n',
    'start = { ("a" | "ab" | ^"b")* ~ ASCII_ALPHA }\nWHITESPACE = _{ " " | NEWLINE }\n',
    'start = { item ~ ("," ~ item)* }\nitem = @{ ASCII_DIGIT+ ~ ("." ~ ASCII_DIGIT+)? }\nWHITESPACE = _{ " " }\n',
    'start = { PUSH(ASCII_ALPHA+) ~ "=" ~ POP }\n',
    'start = { #tg = (word ~ "b") | word }\nword = { ASCII_ALPHA_LOWER+ }\n',
    'start = { (!NEWLINE ~ ANY)* ~ NEWLINE? ~ EOI }\nCOMMENT = _{ "#" ~ (!"#" ~ ANY)* ~ "#" }\n',
    'start = ${ LETTER+ ~ (" " ~ NUMBER)? }\n',
    # the same alternatives in different roles (fused SKIP repeat / plain choice / case-insensitive)
    'start = { word+ ~ EOI }\nword = { ASCII_ALPHA+ }\nWHITESPACE = _{ " " | "\\t" }\n',
    'start = { word ~ sep ~ word ~ EOI }\nword = @{ ASCII_ALPHA+ }\nsep = { (" " | "\\t") }\n',
    'start = { item ~ (("," | ";") ~ item)* ~ EOI }\nitem = @{ ASCII_DIGIT+ }\nWHITESPACE = _{ "," | ";" }\n',
    'start = { ("a" | "b" | "ab")+ ~ (^"a" | ^"b")? }\n',
    'start = { (^"a" | ^"b")+ ~ ("a" | "b" | "ab")? ~ EOI }\n',
    # a plain rule reachable from an atomic rule and from a non-atomic one: parsing from one start rule must not
    # influence a later parse from the other on the same object
    'start = { SOI ~ pair ~ ("," ~ pair)* ~ EOI }\npair = { key ~ "=" ~ val }\ntoken = @{ pair }\n'
    'key = { ASCII_ALPHA+ }\nval = { ASCII_DIGIT+ }\nWHITESPACE = _{ " " }\n',
    # the same rule name used as the operand of a skip-until pattern in two grammars
    'start = @{ "[" ~ (!stop ~ ANY)* ~ ">" }\nstop = { "]" }\n',
    'start = { "<" ~ body ~ ">" }\nbody = @{ (!stop ~ ANY)* }\nstop = { ">" | "]" }\n',
    # the same rule name with different modifiers in different grammars, reached inside an atomic rule (whose hiding
    # of inner pairs depends on the modifier of the rule that produced them)
    'start = @{ item ~ ("," ~ item)* }\nitem = ${ word }\nword = { ASCII_ALPHA+ }\n',
    'start = @{ item ~ ("," ~ item)* }\nitem = { word }\nword = { ASCII_ALPHA+ }\n',
    'start = @{ item ~ ("," ~ item)* }\nitem = !{ word }\nword = @{ ASCII_ALPHA+ }\n',
]
INPUTS = ["ab,cd", "ab,cd,e", "ab  \t cd", "ab  cd", "ab cd", "1,;2", "1,2;3", "abAB", "ABab", "", "a", "ab", "ff!", "xyz", "a1\n", "a b\n", "1, 2.5,3", "1,", "ab=ab", "ab=ac", "wordb", "word", "#c#x\n",
          "é 5", "g", "A\r\n", "12", "ab ab a", "[ab]", "[ab>", "<ab]", "<ab>",
          "a = 1, b = 2", "a=1,b=2", "\x01token\x01a=1", "\x01token\x01a = 1", "\x01pair\x01a = 1", "\x01pair\x01a=1"]
MODES = ("I", "O", "IG", "OG")


def fingerprint():
    """Structure of every process-wide object a parse could read."""
    from pest import Parser
    from pest.grammar.optimizer import DEFAULT_OPTIMIZER, DEFAULT_OPTIMIZER_PASSES
    parts = []
    for name, rule in Parser.BUILTIN.items():
        parts.append((name, type(rule).__name__, rule.modifier, shape(rule.expression)))
    parts.append(("passes", tuple((s.name, s.func.__name__, s.direction.name, s.fixed_point)
                                  for s in DEFAULT_OPTIMIZER_PASSES)))
    parts.append(("default-optimizer-passes", tuple(s.name for s in DEFAULT_OPTIMIZER.passes)))
    return tuple(parts)


def hidden_state():
    """Every piece of process-wide MUTABLE state in the pest package a later call could read: mutable default
    arguments of functions and methods, and module-level list / dict / set objects. (Not a verdict by itself:
    a change is reported as a broken monitor; a result that depends on it is found by the comparison with a
    fresh process.)"""
    import types
    out = []
    for mname in sorted(sys.modules):
        if mname != "pest" and not mname.startswith("pest."):
            continue
        mod = sys.modules[mname]
        for aname, val in sorted(vars(mod).items(), key=lambda kv: kv[0]):
            if aname.startswith("__"):
                continue
            if isinstance(val, (list, dict, set)) and aname not in ("BUILTIN",):
                out.append((mname, aname, _digest(val)))
            funcs = []
            if isinstance(val, types.FunctionType) and val.__module__ == mname:
                funcs.append((aname, val))
            elif isinstance(val, type) and val.__module__ == mname:
                for fname, f in vars(val).items():
                    f = getattr(f, "__func__", f)
                    if isinstance(f, types.FunctionType):
                        funcs.append((aname + "." + fname, f))
                    elif isinstance(f, (list, dict, set)):
                        out.append((mname, aname + "." + fname, _digest(f)))
            for fname, f in funcs:
                for d in (f.__defaults__ or ()) + tuple((f.__kwdefaults__ or {}).values()):
                    if isinstance(d, (list, dict, set)):
                        out.append((mname, fname + "(default)", _digest(d)))
    return tuple(out)


def _digest(v):
    try:
        if isinstance(v, dict):
            return ("dict", len(v), tuple(sorted(map(repr, v))[:50]))
        return (type(v).__name__, len(v), tuple(sorted(map(repr, v))[:50]))
    except Exception:  # noqa: BLE001
        return (type(v).__name__, len(v))


def shape(e):
    kids = e.children() if hasattr(e, "children") else []
    extra = ()
    for attr in ("value", "start", "stop", "pattern", "number", "min", "max", "name"):
        if hasattr(e, attr) and not callable(getattr(e, attr)):
            v = getattr(e, attr)
            if isinstance(v, (str, int, type(None))):
                extra += ((attr, v),)
    return (type(e).__name__, extra, tuple(shape(k) for k in kids))


def make(gi: int, mode: str):
    import impl
    b = impl.Built(GRAMMARS[gi], modes=(mode,))
    return b


def call(b, mode: str, text: str, k: int = 0, timeout=2.0):
    rule = "start"
    if text.startswith("\x01"):          # "\x01<rule>\x01<text>": parse from another start rule
        _, rule, text = text.split("\x01", 2)
    r = b.run(mode, rule, text, k, timeout=timeout)
    return r[:2] if r[0] == "OK" else r


def fresh_eval(args):
    """Runs in a brand-new interpreter process (maxtasksperchild=1, spawn): one process per (grammar, mode,
    order); the parser is built ONCE — the first and only parser of that process, so no earlier parser can
    have influenced it — and the texts are parsed in the given order. Two processes with opposite orders
    are run per (grammar, mode): a text whose result differs between them depends on earlier parse() calls."""
    gi, mode, texts, rev = args
    sys.setrecursionlimit(3000)
    out = {}
    b = make(gi, mode)
    if rev is True:
        order = list(reversed(texts))
    elif rev is False:
        order = list(texts)
    elif rev[0] == "first":          # one input first (e.g. a call from another start rule), then the others
        order = [rev[1]] + [t for t in texts if t != rev[1]]
    else:                             # ("shuffle", k): a seeded permutation
        order = list(texts)
        random.Random(rev[1]).shuffle(order)
    for text in order:
        out[(gi, mode, text)] = call(b, mode, text)
    return rev, out


def run_history(args):
    """One seeded history in this (long-lived, already used) process."""
    seed, length = args[:2]
    focus = args[2] if len(args) > 2 else None      # restrict the history to these grammars (focused histories)
    rng = random.Random(seed)
    objs = []
    problems = []
    fp0 = fingerprint()
    hs0 = hidden_state()
    observed = []
    for step in range(length):
        op = rng.choice(["new", "new", "parse", "parse", "parse", "generate", "fail"])
        if op == "new" or not objs:
            gi = rng.choice(focus) if focus else rng.randrange(len(GRAMMARS))
            mode = rng.choice(MODES)
            objs.append((gi, mode, make(gi, mode)))
        elif op == "generate":
            gi, mode, b = rng.choice(objs)
            p = b.parsers.get(mode + ":parser") or b.parsers.get(mode)
            if hasattr(p, "generate"):
                p.generate()
        else:
            gi, mode, b = rng.choice(objs)
            text = rng.choice(INPUTS) if op == "parse" else rng.choice(["", "\x00", "!!", "= ="])
            r = call(b, mode, text)
            observed.append((gi, mode, text, r, step))
        fp = fingerprint()
        if fp != fp0:
            diff = [a[0] for a, c in zip(fp, fp0) if a != c]
            problems.append({"what": f"shared process-wide object changed by operation #{step} ({op}): {diff[:5]}",
                             "seed": seed, "step": step})
            fp0 = fp
        hs = hidden_state()
        if hs != hs0:
            diff = [f"{a[0]}.{a[1]}" for a in hs if a not in hs0]
            problems.append({"what": f"process-wide mutable state of the pest package changed during operation #{step} "
                                     f"({op}): {diff[:5]}", "seed": seed, "step": step, "monitor": True})
            hs0 = hs
    return seed, observed, problems


def thread_check(seed: int, nthreads: int = 8, ncalls: int = 120):
    """Concurrent parse() calls on shared objects vs the same calls run sequentially."""
    rng = random.Random(seed)
    objs = [(gi, mode, make(gi, mode)) for gi in range(len(GRAMMARS)) for mode in MODES if (gi + len(mode)) % 2 == 0]
    plan = [[(rng.randrange(len(objs)), rng.choice(INPUTS)) for _ in range(ncalls)] for _ in range(nthreads)]
    seq = [[call(objs[i][2], objs[i][1], t) for i, t in p] for p in plan]
    old = sys.getswitchinterval()
    sys.setswitchinterval(1e-6)
    out: list = [None] * nthreads
    errs = []

    def worker(k):
        try:
            out[k] = [call(objs[i][2], objs[i][1], t, timeout=None) for i, t in plan[k]]
        except Exception as e:  # noqa: BLE001
            errs.append(f"{type(e).__name__}: {e}")

    ths = [threading.Thread(target=worker, args=(k,)) for k in range(nthreads)]
    for t in ths:
        t.start()
    for t in ths:
        t.join()
    sys.setswitchinterval(old)
    problems = []
    for e in errs:
        problems.append({"what": f"exception in a parsing thread: {e}"})
    for k in range(nthreads):
        if out[k] is not None and out[k] != seq[k]:
            j = next(i for i, (a, c) in enumerate(zip(out[k], seq[k])) if a != c)
            i, t = plan[k][j]
            problems.append({"what": f"thread {k}: parse of {t!r} with grammar {objs[i][0]} mode {objs[i][1]} differs "
                                     f"from the sequential result", "seq": str(seq[k][j])[:200], "thr": str(out[k][j])[:200]})
    return nthreads * ncalls * 2, problems


def check(tier: str, seed: int):
    from checks import Result
    res = Result()
    nhist = 2500 if tier == "thorough" else 200
    length = 25
    ctx = mp.get_context("fork")
    observed_all = []
    with ctx.Pool(NCPU) as pool:
        # besides the histories over the whole pool: for every grammar, histories over that grammar and its neighbour
        # only (many calls on few objects, from every start rule), so that the pool can grow without thinning them out
        n = len(GRAMMARS)
        focused = [(seed * 10000 + 5000 + 4 * gi + j, 40, [gi, (gi + 1) % n]) for gi in range(n) for j in range(4)]
        for s, observed, problems in pool.imap_unordered(run_history, [(seed * 10000 + i, length) for i in range(nhist)] + focused):
            for p in problems:
                if p.get("monitor"):
                    res.tie_breaks.append(p)
                else:
                    res.violations.append({"what": p["what"], "replay": p})
            observed_all.extend((s, *o) for o in observed)
    # baseline: every distinct (grammar, mode, text) in a fresh interpreter process
    # ... and, whatever the histories happened to call, every input of the pool on every grammar in every mode (the two
    # opposite orders in two fresh processes expose a result that depends on an earlier call on the same object)
    keys = sorted({(gi, mode, text) for _s, gi, mode, text, _r, _st in observed_all}
                  | {(gi, mode, text) for gi in range(len(GRAMMARS)) for mode in MODES for text in INPUTS})
    groups: dict = {}
    for gi, mode, text in keys:
        groups.setdefault((gi, mode), []).append(text)
    spawn = mp.get_context("spawn")
    fresh = {}
    fresh_rev = {}
    # orders per (grammar, mode): forward, reverse, every input addressed to another start rule first, two shuffles
    special = [t for t in INPUTS if t.startswith("\x01")]
    orders = [False, True] + [("first", t) for t in special] + [("shuffle", seed * 7 + k) for k in range(2)]
    jobs = [(gi, mode, texts, rev) for (gi, mode), texts in groups.items() for rev in orders]
    others: dict = {}
    with spawn.Pool(NCPU, maxtasksperchild=1) as pool:
        for rev, d in pool.imap_unordered(fresh_eval, jobs, chunksize=1):
            if rev is False:
                fresh.update(d)
            else:
                for key, got in d.items():
                    others.setdefault(key, []).append((rev, got))
    for key, want in fresh.items():
        for rev, got in others.get(key, []):
            if got != want:
                gi, mode, text = key
                fresh_rev[key] = got
                res.violations.append({
                    "what": f"parse result depends on earlier parse() calls on the same object: grammar {gi} mode {mode} "
                            f"input {text!r} (fresh processes, the same inputs parsed in different orders: {rev!r})",
                    "replay": {"grammar": GRAMMARS[gi], "mode": mode, "text": text, "forward": str(want)[:300],
                               "other_order": repr(rev), "other": str(got)[:300]}})
                break
    for s, gi, mode, text, r, step in observed_all:
        want = fresh[(gi, mode, text)]
        if r != want:
            res.violations.append({
                "what": f"parse result depends on history: grammar {gi} mode {mode} input {text!r} at step {step} of "
                        f"history seed {s}",
                "replay": {"seed": s, "grammar": GRAMMARS[gi], "mode": mode, "text": text,
                           "in_history": str(r)[:300], "fresh": str(want)[:300]}})
    n_thr, thr_problems = thread_check(seed, ncalls=400 if tier == "thorough" else 120)
    for p in thr_problems:
        res.violations.append({"what": p["what"], "replay": p})
    res.evaluations = len(observed_all) + len(keys) + n_thr
    res.distinct_nontrivial = len(keys)
    res.rule = (f"{nhist} seeded histories of {length} operations (create a parser for one of {len(GRAMMARS)} grammars in "
                "one of the four modes, generate(), succeeding and failing parses) in long-lived worker processes; every "
                "observed parse result (tree, or failure position and expected/unexpected sets) is compared with the "
                "same call in a brand-new interpreter process; the structure of Parser.BUILTIN and of the default "
                "optimizer's pass list is fingerprinted after every operation, and so is every mutable default argument and "
                "module-level list / dict / set of the pest package (hidden process-wide state); 8 threads x shared parser objects vs "
                "sequential results with switch interval 1e-6. distinct_nontrivial = distinct (grammar, mode, input) "
                "triples observed.")
    res.samples = [f"grammar {GRAMMARS[0].strip()} mode O input 'ff!'"]
    return res
