"""Writes /verif/MANIFEST.json from the table below (run by hand when a check is added)."""

from __future__ import annotations

import json
import os

VERIF = os.path.dirname(os.path.dirname(os.path.abspath(__file__)))

TRUST = ("Coq 8.16.1 kernel (vm_compute used for closed examples and finite sweeps, no native_compute); "
         "no axioms (Print Assumptions: closed under the global context for every theorem of the property file); "
         "extraction (ExtrOcamlBasic only) + OCaml driver; Python harness (generators, fail-closed AST exporter, "
         "comparison). The tie between model and /repo is differential execution on every run, not a proof; "
         "CPython str/list semantics and the regex library are modelled, not verified.")

PARSE_TECH = "Coq theorems about the reference semantics + extracted-model differential against 4 execution modes"

CHECKS = {
    "C03": ("proof", "Theorems about the extracted reference semantics `run` (Spec.v): determinism, ordered choice commits / "
            "backtracks without trace, greedy repetition, bounded repetitions are their unrolled sequences, predicates "
            "consume nothing, one pair per non-silent rule application. The implementation is tied to `run` on every "
            "run: all four execution modes vs the extracted model on G1 (template-complete small scope, all inputs up "
            "to the bound) and G2 (random well-formed grammars); mode I also on failure position and expected sets.",
            "4.C03", PARSE_TECH),
    "C04": ("proof", "Theorems: trivia placement in sequences and between star iterations (given back when no iteration "
            "follows), bounded repetitions as unrolled sequences, no trivia in atomic contexts, rule atomicity table, "
            "atomic hiding of pairs. Correspondence: four modes vs the extracted model on grammars with every trivia "
            "configuration and modifier nesting.", "4.C04", PARSE_TECH),
    "C05": ("proof", "Theorems: each stack operation's effect; failure is `Fail t` (no state), so alternatives, optionals, "
            "iterations and predicates continue from the caller's state; stack operations are total (never Err). "
            "Correspondence: four modes vs the extracted model on stack-heavy grammars, exceptions counted as "
            "violations.", "4.C05", PARSE_TECH),
    "C06": ("proof", "Theorems (SpecWf.v, PairsApi.v): every tree returned by the reference semantics is an ordered, nested, "
            "non-overlapping chain inside [start_pos, len], names are non-silent rules, single root for a non-silent "
            "start rule; tokens() balanced and sorted; flatten() is the pre-order. Check: the same invariants evaluated "
            "directly on every tree of every mode, plus dump()/dumps() agreement (tested, not proved).", "4.C06",
            PARSE_TECH),
    "C07": ("proof", "Theorems: no Err when all references are defined (the model has no other abnormal outcome), "
            "determinism, fuel-independence. Termination for well-formed grammars is stated (C07_full) but not proved: "
            "partial. Check: exception type escaping each mode, repeated call equality, every parse under a timer.",
            "4.C07", PARSE_TECH),
    "C16": ("proof", "Theorem (SpecShift.v): for SOI-free grammars run commutes with shifting positions, hence "
            "parse(text, k) = shift k (parse(text[k:], 0)) and the prefix is irrelevant; counter-example with SOI. "
            "Check: both statements on the implementation in four modes for every k > 0.", "4.C16", PARSE_TECH),
}

NOT_YET = {
}


def main() -> None:
    checks = []
    for pid, (cat, text, ref, tech) in sorted(CHECKS.items()):
        checks.append({
            "property_id": pid,
            "quick_cmd": f"./check {pid} --tier quick",
            "thorough_cmd": f"./check {pid} --tier thorough",
            "evidence_file": f"/verif/evidence/{pid}.json",
            "replay_cmd_template": f"./check {pid} --replay {{path}}",
            "engine": "coq+diff",
            "level_claimed": {"category": cat, "text": text, "design_ref": ref},
            "level_note": TRUST,
            "technique": tech,
        })
    props = [json.loads(line)["id"] for line in open(os.path.join(VERIF, "properties.jsonl"))]
    na = [{"property_id": p, "reason": NOT_YET.get(p, "check not built yet in this revision (in progress)")}
          for p in props if p not in CHECKS]
    doc = {
        "version": 1,
        "setup_cmd": "make -C /verif all",
        "hooks": {
            "guard": "PYTHON_PEST_VERIF",
            "enable": "no hooks: the checks import /repo/src as it is (PYTHONPATH=/repo/src)",
            "baseline_off_cmd": "cd /repo && /venv/bin/python -m pytest -ra -q -p no:cacheprovider --timeout=900 "
                                "--continue-on-collection-errors",
            "source_commits": [],
            "add_only": True,
        },
        "engines": [
            {"name": "coq+diff", "path": "/verif/check",
             "serves_properties": sorted(CHECKS),
             "kind_free_text": "Coq 8.16 development (coq/), extracted to OCaml (ocaml/driver), Python differential "
                               "harness (harness/)"},
        ],
        "checks": checks,
        "not_applicable": na,
        "notes": "See DESIGN.md. fix: commits in /repo are listed in known_findings.json.",
    }
    with open(os.path.join(VERIF, "MANIFEST.json"), "w") as f:
        json.dump(doc, f, indent=1)
        f.write("\n")


if __name__ == "__main__":
    main()
