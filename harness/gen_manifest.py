"""Writes /verif/MANIFEST.json from the table below (run by hand when a check is added)."""

from __future__ import annotations

import json
import os

VERIF = os.path.dirname(os.path.dirname(os.path.abspath(__file__)))

TRUST = ("Coq 8.16.1 kernel (coqc full .vo build; coqchk -o in the thorough tier; vm_compute used for closed examples, finite "
         "sweeps, necessity witnesses and the wf_auto certificates of the bundled grammars; no native_compute); NO axioms "
         "(Print Assumptions of every theorem of the property file is parsed on every run and must read 'Closed under the "
         "global context'; a source gate rejects Admitted/admit/Axiom/Parameter/Conjecture/Hypothesis and Variable outside "
         "sections/Unset Guard/bypass_check); extraction with ExtrOcamlBasic only (its Extract Inductive for bool, option, "
         "list, prod, unit, sumbool; no Extract Constant; N, Z, nat, positive stay inductive) and two small OCaml drivers "
         "(ocaml/driver.ml + conv.ml + ext.ml; ocaml/front_main.ml); the Python harness (generators, the fail-closed exporter "
         "of Rule/Expression objects incl. its reading of an OptimizedChoice's compiled regex text, canonicalisation, "
         "comparison, gen_tables.py which regenerates Tables.v / Grammars.v / GrammarsCalc.v / Builtins.v from /repo). The "
         "tie between the models and /repo is differential execution on every run, not a proof. Modelled by transcription, "
         "not verified against the source text: Interp.v (interpreter), Gen.v (code templates), Front.v (scanner, grammar "
         "parser, unescape), SnapStack.v, LineCol.v, Pratt.v, CharClass.v; CPython str/list semantics and the regex library "
         "as used there; OptPass.v (two optimizer passes, tied exactly); not modelled: the other three optimizer passes (their output is validated by the proved checker Opt.v), exec of "
         "generated source, CPython's recursion limit, threads, memory.")

PARSE_TECH = "Coq theorems about the reference semantics + extracted-model differential against 4 execution modes"

CHECKS = {
    "C03": ("proof", "Theorems about the reference semantics `run` (Spec.v): determinism, ordered choice commits / "
            "backtracks without trace, greedy repetition, bounded repetitions are their unrolled sequences, "
            "predicates consume nothing, one pair per non-silent rule application. The interpreter itself is "
            "modelled clause by clause (Interp.v, tied exactly to mode I: trees, failure positions and expected "
            "sets) and PROVED to refine the reference semantics (InterpProof.iparse_refines: same outcome "
            "whenever it finishes, never an inconsistent state, every checkpoint / saved depth / rule frame "
            "released; hypothesis: a silent rule is not $ or !, which grammar text cannot express, enforced by "
            "the exporter). Tie on every run: all four execution modes vs the extracted models on G1 (complete "
            "depth-1 kernel of atom x context, all inputs up to the bound) and G2 (random well-formed grammars).",
            "4.C03", PARSE_TECH),
    "C04": ("proof", "Theorems: trivia placement in sequences and between star iterations (given back when no iteration "
            "follows), bounded repetitions as unrolled sequences, no trivia in atomic contexts, rule atomicity "
            "table, atomic hiding of pairs. The interpreter itself is modelled clause by clause (Interp.v, tied "
            "exactly to mode I: trees, failure positions and expected sets) and PROVED to refine the reference "
            "semantics (InterpProof.iparse_refines: same outcome whenever it finishes, never an inconsistent "
            "state, every checkpoint / saved depth / rule frame released; hypothesis: a silent rule is not $ or "
            "!, which grammar text cannot express, enforced by the exporter). Correspondence: four modes vs the "
            "extracted models on grammars with every trivia configuration (incl. implicit rules calling other "
            "rules) and modifier nesting.", "4.C04", PARSE_TECH),
    "C05": ("proof", "Theorems: each stack operation's effect; failure is `Fail t` (no state), so alternatives, optionals, "
            "iterations and predicates continue from the caller's state; stack operations are total (never Err). "
            "The interpreter itself is modelled clause by clause (Interp.v, tied exactly to mode I: trees, "
            "failure positions and expected sets) and PROVED to refine the reference semantics "
            "(InterpProof.iparse_refines: same outcome whenever it finishes, never an inconsistent state, every "
            "checkpoint / saved depth / rule frame released; hypothesis: a silent rule is not $ or !, which "
            "grammar text cannot express, enforced by the exporter). Correspondence: four modes vs the extracted "
            "models on stack-heavy grammars (nested backtracking, implicit rules with stack side effects), "
            "exceptions counted as violations.", "4.C05", PARSE_TECH),
    "C06": ("proof", "Theorems (SpecWf.v, PairsApi.v): every tree returned by the reference semantics is an ordered, nested, "
            "non-overlapping chain inside [start_pos, len], names are non-silent rules, tags are tags written in the grammar "
            "(SpecTags.v), single root for a non-silent "
            "start rule; tokens() balanced and sorted; flatten() is the pre-order. Check: the same invariants evaluated "
            "directly on every tree of every mode, plus dump()/dumps() agreement (tested, not proved). The same theorems are "
            "transported to the interpreter and generated-code models by refinement (MachineCor.v).", "4.C06",
            PARSE_TECH),
    "C07": ("proof", "Theorems: no Err when all references are defined (the model has no other abnormal outcome), "
            "determinism, fuel-independence, TERMINATION for every grammar accepted by the well-formedness "
            "certificate (SpecTerm.run_terminates; certificate computed by the extracted wf_auto), hence totality "
            "(C07_total); the interpreter model never crashes (refinement). Outside the model: CPython's "
            "recursion limit and memory (e.g. \"x\"{999999999}). Check: exception type escaping each mode, repeated "
            "call equality, an unrelated canary parser (interpreter and generated module) that must keep returning its "
            "one untagged pair after every call (state that outlives a parse), every parse under a timer.",
            "4.C07", PARSE_TECH),
    "C16": ("proof", "Theorem (SpecShift.v): for SOI-free grammars run commutes with shifting positions, hence "
            "parse(text, k) = shift k (parse(text[k:], 0)) and the prefix is irrelevant; counter-example with SOI. "
            "Transported to the interpreter and generated-code models (C16_interpreter_shift, C16_generated_shift). "
            "Check: both statements on the implementation in four modes for every k > 0.", "4.C16", PARSE_TECH),
    "C01": ("proof", "Theorem C01_generated_equals_interpreter (GenProof.v, no axioms): for the model of the interpreter "
            "(Interp.v) and the statement-level model of the generated code (Gen.v: every generate() template, "
            "generate_parse_trivia, in-place built-ins), for every grammar, start rule, input, start position: whenever both "
            "finish they return the same tree / final position / stack, or fail with the same furthest position, or both "
            "report the undefined rule; neither reaches an inconsistent state; both finish whenever the reference semantics "
            "does (C01_both_terminate), in particular for every grammar with a termination certificate; the generated code "
            "refines the reference semantics and releases every checkpoint. Side conditions enforced by the exporter (silent "
            "rules are not $/!, in-place built-ins are plain silent rules). Tie on every run: mode I = Interp.iparse and mode "
            "IG = Gen.gparse EXACTLY (tree, failure position, expected/unexpected sets) on the complete depth-1 kernel of G1 "
            "(every atom in every context), depth-2 samples, G2, G3, stack families; plus the property itself IG vs I and OG "
            "vs O, generated source loads, generate() twice byte-identical. Outside the model: compile/exec and the module "
            "prelude.", "4.C01",
            "refinement proof between two machine models + exact differential tie of each model to its execution mode"),
    "C02": ("proof", "Translation validation with a proved validator. Theorem C02_validated_optimization_preserves_meaning "
            "(OptProof.ochk_sound, no axioms): if the executable checker Opt.ochk_grammar accepts the rule tables before and "
            "after optimisation, then from every start rule, on every input and start position, the two tables give the same "
            "tree and final state, or both fail, or both hit the undefined rule (both directions); corollary for the "
            "interpreter model on the two tables. The checker recognises unrolling, (!lits ~ ANY)* -> SkipUntil where trivia "
            "is off, inlining of plain silent rules, and squashing of terminal choices into the ordered alternation the "
            "compiled regex denotes (no conflicting pair reordered), and rejects everything else. On every run the extracted "
            "checker validates the tables python-pest's optimizer ACTUALLY produced for every generated grammar (default "
            "pipeline, each single pass, seeded permutations / subsets / repetitions: ~4000 tables per quick run, all "
            "accepted on the current tree; it rejects the outputs of the optimizer defects repaired earlier), and O vs I / "
            "OG vs IG are compared on all cases (the source of replays). Four of the five passes are also MODELLED and three of them PROVED: two (OptPass.v: "
            "Expression.map_bottom_up / map_top_down, the per-rule step of Optimizer.optimize, unroller.unroll, "
            "inliners.inline_builtin) and PROVED for every grammar to produce only tables the validator accepts "
            "(C02_unroll_pass_preserves_meaning, C02_inline_builtin_pass_preserves_meaning, and C02_modelled_passes_compose: any "
            "subset, order or repetition of these two passes preserves every parse; hypotheses: distinct rule names, "
            "no user rule on the reserved SKIP identifier, e{m,n} with m <= n, built-in entries are plain silent rules - "
            "checked per grammar on every run); their tie is exact: the table each real pass produces alone must be "
            "identical to the table the extracted model computes (~12000 comparisons per quick run). C02_unroll_pass_idempotent. "
            "The in-place passes `inline silent` (with the _refers_to cycle check) and `skip` (with _skip and "
            "never_skips_trivia) are modelled too (OptPassSilent.v, OptPassSkip.v) and tied exactly, alone and in short "
            "sequences (~45000 table comparisons per quick run). `inline silent` is PROVED for every grammar "
            "(C02_inline_silent_pass_preserves_meaning: invariant over the in-place fold, using that the validator is "
            "monotone in its fuel, C02_validator_monotone_in_fuel); C02_proved_passes_compose: any subset, order or repetition of the three proved passes preserves every "
            "parse; `skip` is NOT proved and squash_choice is not "
            "modelled: for these two the property rests on the validation of the real output; "
            "the exporter reads the compiled regex text of an OptimizedChoice and maps it to terminals (trusted). The fused SKIP rule is "
            "validated too (OptSkip.ochk_skip; C02_fused_skip_rule_is_implicit_skipping: one call of SKIP = pest's implicit "
            "skipping of the original grammar); that the optimised parsers call SKIP at the places where the reference "
            "skips is tied by execution (O/OG vs the reference semantics).", "4.C02",
            "proved translation validator run on the real optimizer output + proved Coq models of two passes tied exactly + optimized-vs-unoptimized differential"),
    "C08": ("proof", "Theorems (SpecEquiv.v, 22 statements): untagged group is identity, sequence / choice re-association, "
            "extraction of a sub-expression into a fresh silent rule, duplicate alternative, never-matching "
            "alternatives (positive and negated), congruence for every construct (so the rewrites compose at any "
            "nesting), tracker irrelevance. Check: the rewrites and compositions of two at one site applied to "
            "the text of the bundled grammars (plus synthetic grammars with tags/stack/atomicity), original vs "
            "rewritten in four modes on every run.", "4.C08",
            "Coq laws + rewrite-and-compare on bundled grammars"),
    "C09": ("proof", "Theorem C09_history_refines: for EVERY history of push/pop/clear/snapshot/restore/drop the "
            "delta-encoded stack (model of stack.py) has the contents and saved copies of the full-copy reference "
            "(representation invariant + abstraction function, induction over the history); counter and ParserState "
            "component-wise. Tie: ALL histories up to length 8 plus long random ones, and ParserState / "
            "SnapshottingInt histories, implementation vs extracted model vs an independent reference.", "4.C09",
            "refinement proof over all histories + exhaustive small-scope tie"),
    "C10": ("proof", "PARTIAL. (a) Model of python-pest's own front end (Front.v: function-by-function transcription of "
            "scanner.py, grammar/parser.py, unescape.py, Parser.from_grammar with optimizer=None), tied EXACTLY on every run: "
            "identical rule table (names, modifiers, docs, tags, expression trees) or identical error position on every "
            "generated text (~3600 per quick run) - so what is compared below is what the model computes. (b) Accept set and "
            "built structure are decided differentially against the reference reader (extracted reference semantics running "
            "tests/grammars/meta.pest, regenerated into Grammars.v, + denote with pest's value limits) on generated grammar "
            "texts with every syntactic form and layout, bundled grammars, mutations, edge texts. Proved: the front-end model "
            "is total (C10_front_end_total); the restructuring repair of the infix parser (6964c88) preserves the front end's "
            "result on every text (C10_infix_refactoring_preserved_front_end: old and new parser both transcribed); the reader never reaches an undefined rule, its verdict is fuel-independent, its "
            "trees are well-formed, it terminates on every text. NOT proved: equivalence of the front-end model and the "
            "reference reader (that tie is differential).", "4.C10",
            "front-end model with exact tie + reference reader = proved semantics on pest's own meta-grammar; differential"),
    "C11": ("proof", "Theorem C11_front_end_total (FrontProof.v, no axioms): for EVERY text the front end as modelled (Front.v: "
            "scanner, grammar parser, unescape, from_grammar without optimizer; every Python operation that can raise made an "
            "explicit partial operation) returns a rule table or a grammar syntax error - no IndexError / ValueError / "
            "KeyError / AssertionError outcome is reachable and the linear fuel it runs on always suffices (termination) - and "
            "C11_front_end_error_position: the reported position lies inside the text. The model is tied exactly to "
            "Parser.from_grammar on every run (rule table or error position on every generated text, incl. truncations, "
            "mutations, token soups, ~500 hand-written edge texts). Also proved for the reference reader: never abnormal, "
            "rejection position inside the text, terminates. PARTIAL: the optimizer's part of loading (default pipeline) is "
            "covered by execution only (exception type, str() and line/column on every text, with and without optimizer); "
            "CPython's recursion limit is outside the model (the library converts it into a grammar error); message texts.",
            "4.C11", "totality theorem for a transcribed front-end model + exact differential tie + fault-input differential"),
    "C12": ("proof", "Theorems over unbounded N: ranges exact and case-sensitive; the optimizer's merged class accepts "
            "exactly the union of its parts; ASCII tables in the source (regenerated into Tables.v) equal pest's; ASCII "
            "case variants. Check: EVERY code point U+0000..U+10FFFF through the real parser in four modes for every "
            "built-in, boundary ranges, literals and squashed choices vs the extracted model; Unicode properties "
            "interpreter-vs-generated regex on every code point; every escape form.", "4.C12",
            "Coq set-level theorems + exhaustive sweep of the finite code space"),
    "C13": ("proof", "Theorems: failure position is -1 or inside [start_pos, len]; listed names are rules; "
            "error_context is line_col of the position (C14's theorem). Rendering text itself is tested on every "
            "rejected input in four modes. Position and names theorems transported to the interpreter and generated-code "
            "models (MachineCor.v).", "4.C13", PARSE_TECH),
    "C14": ("proof", "Theorem C14_line_col: for every text with \\n breaks and EVERY offset 0..len, line_col = (1 + "
            "breaks before p, 1 + distance from last break); injectivity. Model of splitlines/line_col/line_of/"
            "Span.lines tied exhaustively: all texts over {a,b,\\n} to length 7, \\r\\n and other breaks, "
            "non-ASCII samples, all offsets and spans.", "4.C14", "proof by induction over the text + exhaustive tie"),
    "C15": ("proof", "PARTIAL by nature. Model: a process is a list of parsers each with its own table; history "
            "independence is a theorem of the model. That the code matches (parse reads only its own table and "
            "immutable shared data) is monitored: fingerprints of Parser.BUILTIN / default optimizer after every "
            "operation of seeded histories, observed results vs a fresh interpreter, 8 threads vs sequential. Thread "
            "scheduling inside one parse() call is outside the model.", "4.C15",
            "world model theorem + shared-state monitor + history/thread differential"),
    "C17": ("proof", "JSON, about the grammars REGENERATED from examples/json/json.pest and tests/grammars/json.pest on every run "
            "(JsonComplete.v, JsonTestComplete.v, JsonPrefix.v; no axioms): C17_json_complete / C17_json_test_complete - every "
            "RFC 8259 text (top level array or object for the first grammar, any value for the second), any nesting, every "
            "number form, every escape, insignificant whitespace wherever RFC 8259 allows it, is accepted by the reference "
            "semantics, consuming the whole input, with a tree that mirrors the document (same nesting and member order, number "
            "and string tokens exactly the source slices, EOI last); C17_json_prefix_rejected - a document written without "
            "trailing whitespace is not accepted when cut short anywhere (soundness of the grammar for a bracket/string "
            "discipline). Also: both grammars reference only defined rules, terminate on every input, trees well-formed. "
            "Calculator (CalcComplete.v): the grammar regenerated from examples/calculator/calculator.pest turns every well-formed "
            "expression text, with whitespace anywhere between tokens, into exactly its token stream (nested expr pairs for "
            "groups), and the Pratt parser consumes that whole stream and builds the canonical tree for any operator table "
            "(C17_calc_end_to_end); the calculator's own table is an instance (C18). PARTIAL: the evaluation functions of the "
            "three calculators and the grammar-encoded-precedence grammar are differential only; prefix rejection is proved "
            "for examples/json/json.pest only. End-to-end on every run: generated RFC 8259 "
            "documents and proper prefixes in four modes vs json.loads; three calculators vs an evaluator written from the "
            "documented table.", "4.C17",
            "instance theorems + differential against json.loads and an independent evaluator"),
    "C18": ("proof", "Theorems (PrattProof.v): the tree built is canonical for the declared table, its yield is the "
            "consumed stream, every canonical tree is rebuilt from its yield (exactness), canonical trees are unique, "
            "well-formed streams are consumed completely — for all tables and streams. Tie: PrattParser subclass with "
            "tuple hooks vs the extracted model, and vs an oracle enumerating all trees with the same yield.",
            "4.C18", "round-trip/uniqueness proof for all tables + enumerated tie"),
}

NOT_YET = {
}


def main() -> None:
    checks = []
    for pid, (cat, text, ref, tech) in sorted(CHECKS.items()):
        checks.append({
            "property_id": pid,
            "quick_cmd": f"./check {pid} --tier quick",
            "thorough_cmd": f"./check {pid} --tier thorough",
            "evidence_file": f"/verif/evidence/{pid}.json",
            "replay_cmd_template": f"./check {pid} --replay {{path}}",
            "engine": "coq+diff",
            "level_claimed": {"category": cat, "text": text, "design_ref": ref},
            "level_note": TRUST,
            "technique": tech,
        })
    props = [json.loads(line)["id"] for line in open(os.path.join(VERIF, "properties.jsonl"))]
    na = [{"property_id": p, "reason": NOT_YET.get(p, "check not built yet in this revision (in progress)")}
          for p in props if p not in CHECKS]
    doc = {
        "version": 1,
        "setup_cmd": "make -C /verif all",
        "hooks": {
            "guard": "PYTHON_PEST_VERIF",
            "enable": "no hooks: the checks import /repo/src as it is (PYTHONPATH=/repo/src)",
            "baseline_off_cmd": "cd /repo && /venv/bin/python -m pytest -ra -q -p no:cacheprovider --timeout=900 "
                                "--continue-on-collection-errors",
            "source_commits": [],
            "add_only": True,
        },
        "engines": [
            {"name": "coq+diff", "path": "/verif/check",
             "serves_properties": sorted(CHECKS),
             "kind_free_text": "Coq 8.16 development (coq/), extracted to OCaml (ocaml/driver), Python differential "
                               "harness (harness/)"},
        ],
        "checks": checks,
        "not_applicable": na,
        "notes": "See DESIGN.md. fix: commits in /repo are listed in known_findings.json.",
    }
    with open(os.path.join(VERIF, "MANIFEST.json"), "w") as f:
        json.dump(doc, f, indent=1)
        f.write("\n")


if __name__ == "__main__":
    main()
