"""C17: bundled JSON grammars vs json.loads, and the three calculators vs an independent
evaluator written from the documented precedence table."""

from __future__ import annotations

import itertools
import json
import multiprocessing as mp
import os
import random
import sys

from common import NCPU, REPO

JSON_GRAMMARS = [("examples/json/json.pest", "json"), ("tests/grammars/json.pest", "json")]


# ------------------------------------------------------------------ JSON generator (RFC 8259)

class JGen:
    def __init__(self, rng: random.Random) -> None:
        self.rng = rng

    def ws(self) -> str:
        r = self.rng.random()
        if r < 0.6:
            return ""
        return self.rng.choice([" ", "\n", "\t", "\r", "  ", " \n ", "\r\n"])

    def number(self) -> str:
        rng = self.rng
        s = "-" if rng.random() < 0.3 else ""
        s += rng.choice(["0", "1", "7", "10", "123", "9007199254740993", "42"])
        if rng.random() < 0.4:
            s += "." + rng.choice(["0", "5", "25", "000", "0001"])
        if rng.random() < 0.3:
            s += rng.choice("eE") + rng.choice(["", "+", "-"]) + rng.choice(["0", "2", "10", "02"])
        return s

    def string(self) -> str:
        rng = self.rng
        parts = []
        for _ in range(rng.randint(0, 5)):
            k = rng.random()
            if k < 0.5:
                parts.append(rng.choice(["a", "bc", " ", "é", "中", "😀", "/", "{", "]", ",", ":", "'", "0"]))
            elif k < 0.85:
                parts.append(rng.choice(['\\"', "\\\\", "\\/", "\\b", "\\f", "\\n", "\\r", "\\t"]))
            else:
                parts.append(rng.choice(["\\u0041", "\\u00e9", "\\uD83D\\uDE00", "\\u0000", "\\uffff", "\\u000A"]))
        return '"' + "".join(parts) + '"'

    def value(self, depth: int) -> str:
        rng = self.rng
        k = rng.random()
        if depth <= 0 or k < 0.45:
            return rng.choice([self.number, self.number, self.string, lambda: "true", lambda: "false",
                               lambda: "null"])()
        if k < 0.72:
            return self.array(depth - 1)
        return self.obj(depth - 1)

    def array(self, depth: int) -> str:
        n = self.rng.choice([0, 0, 1, 2, 3])
        items = [self.ws() + self.value(depth) + self.ws() for _ in range(n)]
        return "[" + (",".join(items) if items else self.ws()) + "]"

    def obj(self, depth: int) -> str:
        n = self.rng.choice([0, 0, 1, 2, 3])
        items = [self.ws() + self.string() + self.ws() + ":" + self.ws() + self.value(depth) + self.ws()
                 for _ in range(n)]
        return "{" + (",".join(items) if items else self.ws()) + "}"

    def document(self) -> str:
        top = self.array if self.rng.random() < 0.5 else self.obj
        return self.ws() + top(self.rng.randint(0, 5)) + self.ws()


def mirror(pair, gpath: str):
    """The structure a pair tree of a JSON value denotes: nesting, member order, number tokens as
    floats, string tokens as raw source slices."""
    name = pair.name
    if name == "value":            # tests/grammars/json.pest wraps every value
        return mirror(pair.children[0], gpath)
    if name == "object":
        return ("obj", tuple((p.children[0].text, mirror(p.children[1], gpath)) for p in pair.children))
    if name == "array":
        return ("arr", tuple(mirror(c, gpath) for c in pair.children))
    if name == "string":
        return ("str", pair.text)
    if name == "number":
        return ("num", float(pair.text))
    if name in ("boolean", "bool"):
        return ("bool", pair.text == "true")
    if name == "null":
        return ("null",)
    raise ValueError(f"unexpected pair {name}")


def mirror_ref(doc: str):
    """The same structure from json.loads (raw string slices are recovered with a scanner of
    the document; numbers via float)."""
    dec = json.JSONDecoder(object_pairs_hook=lambda ps: ("obj", tuple(ps)))
    # json.loads loses raw slices: re-scan strings positionally
    pos = 0

    def skip():
        nonlocal pos
        while pos < len(doc) and doc[pos] in " \t\r\n":
            pos += 1

    def value():
        nonlocal pos
        skip()
        c = doc[pos]
        if c == "{":
            pos += 1
            items = []
            skip()
            if doc[pos] == "}":
                pos += 1
                return ("obj", ())
            while True:
                skip()
                k = string()
                skip()
                assert doc[pos] == ":"
                pos += 1
                v = value()
                items.append((k[1], v))
                skip()
                if doc[pos] == ",":
                    pos += 1
                    continue
                assert doc[pos] == "}"
                pos += 1
                return ("obj", tuple(items))
        if c == "[":
            pos += 1
            items = []
            skip()
            if doc[pos] == "]":
                pos += 1
                return ("arr", ())
            while True:
                items.append(value())
                skip()
                if doc[pos] == ",":
                    pos += 1
                    continue
                assert doc[pos] == "]"
                pos += 1
                return ("arr", tuple(items))
        if c == '"':
            return string()
        for lit, val in (("true", ("bool", True)), ("false", ("bool", False)), ("null", ("null",))):
            if doc.startswith(lit, pos):
                pos += len(lit)
                return val
        v, end = dec.raw_decode(doc, pos)
        pos = end
        return ("num", float(v))

    def string():
        nonlocal pos
        _v, end = dec.raw_decode(doc, pos)
        s = doc[pos:end]
        pos = end
        return ("str", s)

    v = value()
    skip()
    assert pos == len(doc)
    json.loads(doc)  # the independent oracle accepts the whole document
    return v


def json_chunk(args):
    seed, n = args
    import impl
    rng = random.Random(seed)
    gen = JGen(rng)
    built = {}
    for gpath, rule in JSON_GRAMMARS:
        built[gpath] = impl.Built(open(os.path.join(REPO, gpath), encoding="utf-8").read())
    bad = []
    evals = 0
    for _ in range(n):
        doc = gen.document()
        try:
            want = mirror_ref(doc)
        except Exception as e:  # noqa: BLE001
            bad.append({"kind": "tie", "what": f"generator produced a document json.loads rejects: {e}", "doc": doc})
            continue
        core = doc.rstrip(" \t\r\n")
        prefixes = [core[:i] for i in range(len(core))]
        if len(prefixes) > 40:
            prefixes = rng.sample(prefixes, 40)
        for gpath, rule in JSON_GRAMMARS:
            b = built[gpath]
            for mode in impl.MODES:
                r = b.run(mode, rule, doc, 0, timeout=20.0)
                evals += 1
                if r[0] != "OK":
                    bad.append({"kind": "property", "what": f"{gpath} mode {mode} rejects an RFC 8259 document ({r[:2]})",
                                "doc": doc, "gpath": gpath, "mode": mode})
                    continue
                pairs = r[2]
                try:
                    top = [p for p in (pairs[0].children if pairs[0].name == "json" else pairs) if p.name != "EOI"][0]
                    got = mirror(top, gpath)
                except Exception as e:  # noqa: BLE001
                    bad.append({"kind": "property", "what": f"{gpath} mode {mode}: tree is not a JSON mirror ({e})",
                                "doc": doc, "gpath": gpath, "mode": mode})
                    continue
                if got != want:
                    bad.append({"kind": "property", "what": f"{gpath} mode {mode}: tree does not mirror json.loads",
                                "doc": doc, "gpath": gpath, "mode": mode, "got": str(got)[:300], "want": str(want)[:300]})
                for pf in prefixes:
                    rp = b.run(mode, rule, pf, 0, timeout=20.0)
                    evals += 1
                    if rp[0] == "OK":
                        bad.append({"kind": "property", "what": f"{gpath} mode {mode} accepts a proper prefix of a document",
                                    "doc": pf, "gpath": gpath, "mode": mode, "full": doc})
                        break
                    if rp[0] != "FAIL":
                        bad.append({"kind": "property", "what": f"{gpath} mode {mode} raised {rp[1]} on a prefix",
                                    "doc": pf, "gpath": gpath, "mode": mode})
                        break
    return evals, n, bad


# ------------------------------------------------------------------ calculators

class TooBig(Exception):
    """the value would be astronomically large: the expression is not run at all"""


def ref_eval(src: str, env: dict[str, int]):
    """Independent evaluator: + - < * / < ^ (right assoc) < prefix - < postfix ! < primary."""
    toks = []
    i = 0
    while i < len(src):
        c = src[i]
        if c in " \t\r\n":
            i += 1
        elif c.isdigit():
            j = i
            while j < len(src) and src[j].isdigit():
                j += 1
            toks.append(("int", int(src[i:j])))
            i = j
        elif c.isalpha():
            j = i
            while j < len(src) and src[j].isalpha():
                j += 1
            toks.append(("id", src[i:j]))
            i = j
        else:
            toks.append((c, c))
            i += 1
    pos = 0

    def peek():
        return toks[pos][0] if pos < len(toks) else None

    def eat():
        nonlocal pos
        t = toks[pos]
        pos += 1
        return t

    from math import factorial

    def add():
        v = mul()
        while peek() in ("+", "-"):
            op = eat()[0]
            r = mul()
            v = v + r if op == "+" else v - r
        return v

    def mul():
        v = powr()
        while peek() in ("*", "/"):
            op = eat()[0]
            r = powr()
            v = v * r if op == "*" else v // r
        return v

    def powr():
        b = prefix()
        if peek() == "^":
            eat()
            e = powr()
            if isinstance(e, int) and (abs(e) > 64 or abs(b) > 10 ** 6) or not isinstance(e, int) or not isinstance(b, int):
                raise TooBig
            return pow(b, e)
        return b

    def prefix():
        if peek() == "-":
            eat()
            return -prefix()
        return postfix()

    def postfix():
        v = primary()
        while peek() == "!":
            eat()
            if not isinstance(v, int) or v > 20:
                raise TooBig
            v = factorial(v)
        return v

    def primary():
        t = eat()
        if t[0] == "int":
            return t[1]
        if t[0] == "id":
            return env[t[1]]
        if t[0] == "(":
            v = add()
            assert eat()[0] == ")"
            return v
        raise SyntaxError(str(t))

    v = add()
    assert pos == len(toks)
    return v


def outcome(fn):
    try:
        v = fn()
        if isinstance(v, float):
            return ("float", round(v, 9))
        return ("int", v)
    except ZeroDivisionError:
        return ("err", "ZeroDivisionError")
    except (ValueError, OverflowError, TypeError) as e:
        return ("err", "ValueError")
    except RecursionError:
        return ("err", "RecursionError")
    except TooBig:
        raise
    except Exception as e:  # noqa: BLE001
        return ("exc", type(e).__name__)


def calc_exprs(rng: random.Random, n_random: int):
    atoms = ["1", "2", "3", "0", "x", "10"]
    ops = ["+", "-", "*", "/", "^"]
    out = set()

    def gen(depth):
        k = rng.random()
        if depth <= 0 or k < 0.3:
            e = rng.choice(atoms)
        elif k < 0.75:
            e = gen(depth - 1) + rng.choice(["", " "]) + rng.choice(ops) + rng.choice(["", " "]) + gen(depth - 1)
        elif k < 0.85:
            e = "-" + gen(depth - 1)
        elif k < 0.93:
            e = gen(depth - 1) + "!"
        else:
            e = "(" + rng.choice(["", " "]) + gen(depth - 1) + rng.choice(["", " "]) + ")"
        return e

    # exhaustive small: all operator strings over 3 atoms
    small_atoms = ["2", "3", "x"]
    for n in range(1, 4):
        for ops_ in itertools.product(ops, repeat=n):
            for pre in itertools.product(["", "-"], repeat=n + 1):
                for post in itertools.product(["", "!"], repeat=n + 1):
                    if sum(1 for p in pre if p) + sum(1 for p in post if p) > 2:
                        continue
                    parts = []
                    for i in range(n + 1):
                        parts.append(pre[i] + small_atoms[i % 3] + post[i])
                        if i < n:
                            parts.append(" " + ops_[i] + " ")
                    out.add("".join(parts))
    for _ in range(n_random):
        out.add(gen(rng.randint(1, 4)))
    # the same expressions laid out with tabs and line breaks (WHITESPACE = " " | "\t" | NEWLINE)
    for e in sorted(out)[:: max(1, len(out) // 150)]:
        for sep in ("\n", "\t", "\r\n", "\r", " \n "):
            if " " in e:
                out.add(e.replace(" ", sep))
        out.add("\n" + e + "\r\n")
    return sorted(out)


def _fresh_calculator_parsers():
    """The calculators import generated parser modules (examples/calculator/parser.py and
    grammar_encoded_prec_parser.py). The checked-in files are snapshots; like the test suite, regenerate them
    from the library under test — in memory, nothing is written to /repo."""
    import types
    if "examples.calculator.parser" in sys.modules and getattr(sys.modules["examples.calculator.parser"], "_verif_fresh", False):
        return
    from pest import Parser
    import examples.calculator  # noqa: F401  (package object)
    for mod, pest_file in (("examples.calculator.parser", "examples/calculator/calculator.pest"),
                           ("examples.calculator.grammar_encoded_prec_parser", "examples/calculator/grammar_encoded_prec.pest")):
        with open(os.path.join(REPO, pest_file), encoding="utf-8") as fd:
            src = Parser.from_grammar(fd.read()).generate()
        m = types.ModuleType(mod)
        m.__file__ = f"<generated from {pest_file}>"
        m.__package__ = "examples.calculator"
        m._verif_fresh = True
        sys.modules[mod] = m
        exec(compile(src, m.__file__, "exec"), m.__dict__)  # noqa: S102
        setattr(sys.modules["examples.calculator"], mod.rsplit(".", 1)[1], m)


def calc_chunk(exprs):
    sys.path.insert(0, REPO)
    cwd = os.getcwd()
    os.chdir(REPO)
    try:
        _fresh_calculator_parsers()
        from examples.calculator.grammar_encoded_prec import parse_program as gp_program
        from examples.calculator.grammar_encoded_prec_parser import parse as gp_parse
        from examples.calculator.parser import Rule, parse
        from examples.calculator.pratt import CalculatorParser
        from examples.calculator.prec_climber import parse_program
    finally:
        os.chdir(cwd)
    env = {"x": 4}
    pratt = CalculatorParser()
    bad = []
    n = 0
    for src in exprs:
        try:
            want = outcome(lambda: ref_eval(src, env))
        except TooBig:
            continue
        n += 1
        got = {
            "precedence climbing": outcome(lambda: parse_program(parse(Rule.PROGRAM, src)).evaluate(env)),
            "pratt": outcome(lambda: pratt.parse(src).evaluate(env)),
            "grammar encoded": outcome(lambda: gp_program(gp_parse(Rule.PROGRAM, src)).evaluate(env)),
        }
        for k, v in got.items():
            if v != want:
                bad.append({"kind": "property", "what": f"calculator '{k}' gives {v} for {src!r}, the documented "
                                                        f"precedence table gives {want}", "expr": src, "impl": k})
    return n, bad


def check(tier: str, seed: int):
    from checks import Result
    res = Result()
    ndocs = 3000 if tier == "thorough" else 320
    rng = random.Random(seed)
    exprs = calc_exprs(rng, 6000 if tier == "thorough" else 800)
    ctx = mp.get_context("fork")
    docs = 0
    with ctx.Pool(NCPU) as pool:
        for ev, n, bad in pool.imap_unordered(json_chunk, [(seed * 1000 + i, ndocs // 32) for i in range(32)]):
            res.evaluations += ev
            docs += n
            for b in bad:
                _add(res, b)
        for n, bad in pool.imap_unordered(calc_chunk, [exprs[i:i + 200] for i in range(0, len(exprs), 200)]):
            res.evaluations += 3 * n
            for b in bad:
                _add(res, b)
    res.distinct_nontrivial = docs + len(exprs)
    res.extra["distribution"] = {"json_documents": docs, "calculator_expressions": len(exprs)}
    res.rule = (f"{docs} seeded RFC 8259 documents (nesting <= 5, all number forms, all escapes incl. surrogate pairs, "
                "whitespace at every permitted place) and up to 40 proper prefixes of each, both bundled JSON grammars, "
                "four execution modes: accepted, tree mirrors json.loads (nesting, member order, numbers as floats, "
                "strings as raw slices), prefixes rejected. Calculators: all expressions with <= 3 operators over "
                "{+ - * / ^} with up to two prefix '-' / postfix '!' (exhaustive) plus seeded deeper ones with "
                "parentheses and spacing; the three implementations vs an independent evaluator written from the "
                "documented precedence table. distinct_nontrivial = documents + expressions.")
    res.samples = ['{"a": [1, -0.5e+2, "x\\u00e9"]}', "2 ^ 3 ^ 2", "-3!", "1 - 2 - 3"]
    return res


def _add(res, b):
    if b["kind"] == "tie":
        res.tie_breaks.append(b)
    else:
        res.violations.append({"what": b["what"], "replay": b})
