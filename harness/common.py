"""Shared plumbing: paths, build, driver process, evidence and replay files."""

from __future__ import annotations

import hashlib
import json
import os
import re
import subprocess
import sys
import time

VERIF = os.path.dirname(os.path.dirname(os.path.abspath(__file__)))
REPO = os.environ.get("VERIF_REPO", "/repo")
COQ = os.path.join(VERIF, "coq")
OCAML = os.path.join(VERIF, "ocaml")
DRIVER = os.path.join(OCAML, "driver")
EVIDENCE = os.path.join(VERIF, "evidence")
REPLAYS = os.path.join(EVIDENCE, "replays")
KNOWN = os.path.join(VERIF, "known_findings.json")
NCPU = int(os.environ.get("VERIF_JOBS", str(os.cpu_count() or 4)))

STD_AXIOMS_ALLOWED: tuple[str, ...] = ()  # the development is axiom-free; anything listed fails


def log(*a: object) -> None:
    print(*a, file=sys.stderr, flush=True)


# --------------------------------------------------------------------------- build

class BuildResult:
    def __init__(self) -> None:
        self.ok = True
        self.failed_file: str | None = None
        self.output = ""
        self.wall = 0.0


def build(quiet: bool = True) -> BuildResult:
    """Regenerate data files from /repo, build the Coq development and the OCaml driver."""
    t0 = time.time()
    res = BuildResult()
    env = dict(os.environ)
    env["VERIF_REPO"] = REPO
    p = subprocess.run(
        ["make", "-C", VERIF, "-s", "all", f"JOBS={NCPU}"],
        capture_output=True, text=True, env=env, timeout=3000,
    )
    res.output = p.stdout + p.stderr
    res.ok = p.returncode == 0
    if not res.ok:
        m = re.search(r'File "\./([^"]+)", line', res.output)
        if m:
            res.failed_file = m.group(1)
    res.wall = time.time() - t0
    return res


FORBIDDEN = re.compile(
    r"\b(Admitted|admit|Axiom|Axioms|Parameter|Parameters|Conjecture|Hypothesis|Variable)\b|"
    r"Unset\s+Guard|bypass_check|type-in-type|impredicative-set|Admit Obligations"
)


def gate_sources() -> list[str]:
    """Grep gate: no admits/axioms/unsafe flags anywhere in the development.

    `Variable`/`Hypothesis` are allowed only inside a Section (checked textually: the
    file must have an open `Section` at that point)."""
    bad: list[str] = []
    for root, _d, files in os.walk(COQ):
        for fn in files:
            if not fn.endswith(".v"):
                continue
            path = os.path.join(root, fn)
            depth = 0
            in_comment = 0
            for i, line in enumerate(open(path, encoding="utf-8"), 1):
                code = _strip_comments(line)
                if re.match(r"\s*Section\s", code):
                    depth += 1
                if re.match(r"\s*End\s", code) and depth > 0:
                    depth -= 1
                for m in FORBIDDEN.finditer(code):
                    w = m.group(0)
                    if w in ("Variable", "Hypothesis") and depth > 0:
                        continue
                    bad.append(f"{os.path.relpath(path, VERIF)}:{i}: {w}")
    for extra in ("_CoqProject",):
        txt = open(os.path.join(COQ, extra)).read()
        if "type-in-type" in txt or "impredicative-set" in txt:
            bad.append(f"coq/{extra}: unsafe flag")
    return bad


def _strip_comments(line: str) -> str:
    # comments in this development never span lines with code after them
    return re.sub(r"\(\*.*?\*\)", "", line)


def proof_status(prop: str) -> dict:
    """Obligations of coq/props/<prop>.v: theorems closed by Qed in it and in its
    dependencies within this development; discharged when the .vo files exist and are newer
    than their sources; assumptions parsed from the Print Assumptions output."""
    pfile = os.path.join(COQ, "props", f"{prop}.v")
    out = {"obligations": 0, "discharged": 0, "axioms": [], "theorems": [], "closed": 0,
           "files": [], "ok": False, "detail": ""}
    if not os.path.exists(pfile):
        out["detail"] = "no property file"
        return out
    deps = _deps(pfile)
    files = [pfile] + deps
    out["files"] = [os.path.relpath(f, COQ) for f in files]
    ob = 0
    dis = 0
    for f in files:
        src = open(f, encoding="utf-8").read()
        n = len(re.findall(r"\bQed\.", src))
        ob += n
        vo = f[:-2] + ".vo"
        if os.path.exists(vo) and os.path.getmtime(vo) >= os.path.getmtime(f):
            dis += n
    out["obligations"] = ob
    out["discharged"] = dis
    out["theorems"] = re.findall(r"^(?:Theorem|Lemma|Corollary)\s+(\w+)", open(pfile).read(), re.M)
    # Print Assumptions output was captured by the Makefile into props/<prop>.assumptions
    afile = pfile[:-2] + ".assumptions"
    if os.path.exists(afile) and os.path.getmtime(afile) >= os.path.getmtime(pfile):
        txt = open(afile).read()
        out["closed"] = txt.count("Closed under the global context")
        axioms = []
        for blk in re.findall(r"Axioms:\n((?:.+\n?)+?)(?=\n\S|\Z)", txt):
            for m in re.finditer(r"^(\S+)\s*:", blk, re.M):
                axioms.append(m.group(1))
        out["axioms"] = sorted(set(axioms))
        n_print = len(re.findall(r"Print Assumptions", open(pfile).read()))
        reported = out["closed"] + len(re.findall(r"Axioms:", txt))
        out["ok"] = (ob > 0 and ob == dis and reported >= n_print
                     and all(a in STD_AXIOMS_ALLOWED for a in out["axioms"]))
        if reported < n_print:
            out["detail"] = "Print Assumptions output incomplete"
    else:
        out["detail"] = "assumptions file missing or stale"
    return out


def _deps(vfile: str) -> list[str]:
    """Transitive dependencies of a .v file inside this development (textual Require scan)."""
    seen: dict[str, None] = {}

    def visit(f: str) -> None:
        src = open(f, encoding="utf-8").read()
        for m in re.finditer(r"From\s+PP\s+Require\s+(?:Import|Export)?\s*([^.]+)\.", src):
            for mod in m.group(1).split():
                cand = os.path.join(COQ, *mod.split(".")) + ".v"
                if not os.path.exists(cand):
                    cand = os.path.join(COQ, "props", mod + ".v")
                if os.path.exists(cand) and cand not in seen:
                    seen[cand] = None
                    visit(cand)

    visit(vfile)
    return list(seen)


# --------------------------------------------------------------------------- driver

class Driver:
    """One extracted-model process; line in, line out."""

    def __init__(self) -> None:
        self.p = subprocess.Popen(
            ["/bin/sh", "-c", f"ulimit -s unlimited 2>/dev/null; exec {DRIVER}"],
            stdin=subprocess.PIPE, stdout=subprocess.PIPE, text=True, bufsize=1,
        )

    def ask(self, line: str) -> str:
        assert "\n" not in line
        self.p.stdin.write(line + "\n")
        self.p.stdin.flush()
        out = self.p.stdout.readline()
        if not out:
            raise RuntimeError("driver died on: " + line[:200])
        return out.rstrip("\n")

    def ask_many(self, lines: list[str]) -> list[str]:
        # pipelined in chunks to avoid pipe dead-lock
        out: list[str] = []
        chunk = 200
        for i in range(0, len(lines), chunk):
            part = lines[i:i + chunk]
            self.p.stdin.write("\n".join(part) + "\n")
            self.p.stdin.flush()
            for _ in part:
                o = self.p.stdout.readline()
                if not o:
                    raise RuntimeError("driver died")
                out.append(o.rstrip("\n"))
        return out

    def close(self) -> None:
        try:
            self.p.stdin.close()
            self.p.wait(timeout=5)
        except Exception:  # noqa: BLE001
            self.p.kill()


# --------------------------------------------------------------------------- evidence

def write_replay(prop: str, payload: dict) -> str:
    os.makedirs(REPLAYS, exist_ok=True)
    blob = json.dumps(payload, sort_keys=True, ensure_ascii=True, indent=1)
    h = hashlib.sha1(blob.encode()).hexdigest()[:12]
    path = os.path.join(REPLAYS, f"{prop}-{h}.json")
    with open(path, "w") as f:
        f.write(blob + "\n")
    return path


def load_known() -> dict:
    if os.path.exists(KNOWN):
        return json.load(open(KNOWN))
    return {"findings": [], "fixed": []}


def write_evidence(prop: str, tier: str, seed: int, level: str, coverage: dict,
                   wall: float, violations: int, assumptions: list[str], extra: dict | None = None) -> str:
    os.makedirs(EVIDENCE, exist_ok=True)
    doc = {
        "property_id": prop,
        "tier": tier,
        "seed": seed,
        "level": level,
        "coverage": coverage,
        "wall_s": round(wall, 2),
        "violations": violations,
        "assumptions": assumptions,
    }
    if extra:
        doc.update(extra)
    path = os.path.join(EVIDENCE, f"{prop}.json")
    with open(path, "w") as f:
        json.dump(doc, f, indent=1, ensure_ascii=True, sort_keys=False)
        f.write("\n")
    return path
