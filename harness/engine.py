"""Differential engine: every case (grammar text, start rules, inputs) is run through the
extracted reference semantics (coq/Spec.v) and the implementation's four execution modes;
per-property judges decide which differences are violations of which property."""

from __future__ import annotations

import time

import multiprocessing as mp
import os
import traceback

import gen
from common import NCPU, Driver

FUEL = 6000

_drv = None


WORKER_MEMORY = 6 * 1024 ** 3   # address-space cap of one worker process


def _init():
    global _drv
    _drv = Driver()
    # a parse that allocates without bound must end in MemoryError inside this worker (and be reported with its
    # case), not take the machine down: the kernel's OOM killer removes the worker silently and its task is lost
    try:
        import resource
        resource.setrlimit(resource.RLIMIT_AS, (WORKER_MEMORY, WORKER_MEMORY))
    except Exception:  # noqa: BLE001
        pass


def cps(text: str) -> str:
    return " ".join(str(ord(c)) for c in text)


def inputs_for(case: dict):
    if "inputs" in case:
        return case["inputs"]
    return list(gen.all_strings(case["alphabet"], case["maxlen"]))


def starts_for(case: dict, text: str):
    ks = case.get("starts", "some")
    n = len(text)
    if ks == "zero":
        return [0]
    if ks == "all" or n <= 3:
        return list(range(n + 1))
    return [0, 1, n]


# ----------------------------------------------------------------------------- tree checks (C06)

def tree_problems(res, text: str, k: int, names_ok, tags_ok, root_single: bool) -> str | None:
    """Direct check of C06's invariants on a result ('OK', tree, pairs)."""
    _tag, tree, pairs = res
    n = len(text)

    def walk(t, lo, hi):
        name, s, e, tag, kids = t
        if not (lo <= s <= e <= hi):
            return f"span ({s},{e}) of {name} outside [{lo},{hi}]"
        if name not in names_ok:
            return f"pair name {name!r} is not a non-silent rule of the grammar"
        if tag is not None and tag not in tags_ok:
            return f"tag {tag!r} not written in the grammar"
        prev = s
        for c in kids:
            if c[1] < prev:
                return f"children of {name} overlap or are out of order at {c[1]} < {prev}"
            r = walk(c, s, e)
            if r:
                return r
            prev = c[2]
        return None

    prev = k
    for t in tree:
        if t[1] < prev:
            return f"top-level pairs overlap or are out of order at {t[1]} < {prev}"
        r = walk(t, k, n)
        if r:
            return r
        prev = t[2]
    if root_single and not (len(tree) == 1 and tree[0][1] == k):
        return f"non-silent start rule gave {len(tree)} root pairs / start {tree[0][1] if tree else None} != {k}"
    # API-level: text slices, tokens, flatten, dump/dumps
    try:
        flat = list(pairs.flatten())
        toks = list(pairs.tokens())
        depth = 0
        last = -1
        stack = []
        for tk in toks:
            if tk.pos < last:
                return "tokens(): positions decrease"
            last = tk.pos
            if type(tk).__name__ == "Start":
                stack.append(tk.rule.name)
            else:
                if not stack or stack.pop() != tk.rule.name:
                    return "tokens(): unbalanced"
        if stack:
            return "tokens(): unbalanced"
        starts = [tk for tk in toks if type(tk).__name__ == "Start"]
        if len(starts) != len(flat) or any(a.rule.name != b.name or a.pos != b.start for a, b in zip(starts, flat)):
            return "flatten() is not the pre-order of tokens()"
        for p in flat:
            if p.text != text[p.start:p.end] or str(p) != p.text or str(p.span()) != p.text:
                return "pair text is not input[start:end]"
        d = pairs.dump()
        s1 = pairs.dumps()
        s2 = pairs.dumps(compact=False)
        import json as _json
        if _json.loads(s2) != d:
            return "dumps(compact=False) disagrees with dump()"
        if not dump_agrees(d, s1):
            return "dumps() disagrees with dump()"
    except Exception as e:  # noqa: BLE001
        return f"Pairs API raised {type(e).__name__}: {e}"
    return None


def dump_agrees(d: list, compact: str) -> bool:
    """Re-derive the compact rendering from dump() and compare."""
    import json as _json

    def fmt(node, indent, new_line):
        kids = node["inner"]
        n = len(kids)
        ind = "  " * indent if new_line else ""
        dash = "- " if new_line else ""
        tag = f"{node['node_tag']} " if node.get("node_tag") else ""
        ch = [fmt(c, indent + 1 if n > 1 else indent, n > 1) for c in kids]
        if n == 0:
            return f"{ind}{dash}{tag}{node['rule']}: {_json.dumps(node['span']['str'])}"
        if n == 1:
            return f"{ind}{dash}{tag}{node['rule']} > {ch[0]}"
        return f"{ind}{dash}{tag}{node['rule']}\n" + "\n".join(ch)

    return "\n".join(fmt(x, 0, True) for x in d) == compact


# ----------------------------------------------------------------------------- per-case work

def run_case(args):
    case, judges, opts = args
    try:
        return _run_case(case, judges, opts)
    except Exception:  # noqa: BLE001
        return {"fatal": traceback.format_exc(), "case": case}


CASE_BUDGET = 150.0     # seconds of wall time one random / bundled grammar may take


def _run_case(case: dict, judges: list[str], opts: dict):
    t_case = time.time()
    import impl
    from export import ExportError, export_parser
    from pest.grammar.rule import SILENT, BuiltInRule

    out = {"evals": 0, "cases": 0, "viol": [], "excluded": 0, "accepted": 0, "rejected": 0,
           "label": case["label"], "nontrivial": 0, "kinds": {}}
    modes = opts.get("modes", impl.MODES)
    b = impl.Built(case["grammar"], passes=_passes(case), modes=modes)
    if "I" in b.err:
        # the grammar does not load: not a parsing case (front-end properties handle it)
        out["excluded"] += 1
        out["build_error"] = b.err["I"]
        return out
    pI = b.parsers["I"]
    try:
        sexp, syms = export_parser(pI)
    except ExportError as e:
        out["viol"].append({"judge": "tie", "what": f"exporter: {e}", "case": case})
        return out
    ok = _drv.ask("G " + sexp)
    if ok == "OK":
        ok = _drv.ask("B " + " ".join(map(str, syms.inlined)))
    if ok != "OK":
        out["viol"].append({"judge": "tie", "what": f"driver rejected grammar: {ok}", "case": case, "sexp": sexp})
        return out

    if "C02" in judges and "O" in modes and "O" not in b.err:
        # translation validation: the optimizer's actual output must be accepted by the proved checker
        # (coq/Opt.v ochk_grammar; soundness OptProof.ochk_sound)
        pO = b.parsers["O"]
        try:
            roots = list(syms.exported) + (["SKIP"] if "SKIP" in pO.rules else [])
            sexp_o, _ = export_parser(pO, roots=roots, syms=syms)
            verdict = _drv.ask("O " + sexp_o)
        except ExportError as e:
            verdict = f"EXPORT {e}"
        out["optcheck"] = {"valid": int(verdict == "VALID"), "invalid": int(verdict != "VALID"),
                           "changed": int(verdict == "VALID" and sexp_o != sexp)}
        if verdict != "VALID":
            out["viol"].append({"judge": "tie", "what": "the optimizer's output is not accepted by the proved "
                                f"translation validator (Opt.ochk_grammar): {verdict[:200]}", "case": case,
                                "optimized": sexp_o if not verdict.startswith("EXPORT") else None, "original": sexp})
        # the passes themselves (coq/OptPass.v, proved to produce only validated tables): the table each modelled
        # pass produces alone must be IDENTICAL to the table the extracted model of the pass computes
        pm = out.setdefault("passmodel", {"same": 0, "diff": 0, "changed": 0, "outside_theorem_domain": 0})
        from pest import Parser as _Parser
        from pest.grammar.optimizer import DEFAULT_OPTIMIZER_PASSES as _DP, Optimizer as _Opt
        bis = " ".join(str(syms.rule(n)) for n in syms.exported if isinstance(pI.rules.get(n), BuiltInRule))
        seqs = [(("unroll",), "unroll"), (("inline built-in",), "inline-builtin")]
        # and, alternating per case, sequences of the two (the subject of C02_modelled_passes_compose)
        seqs.append(((("unroll", "inline built-in", "unroll"), "unroll+inline-builtin+unroll"),
                     (("inline built-in", "unroll", "inline built-in"), "inline-builtin+unroll+inline-builtin"))
                    [len(case["grammar"]) % 2])
        # the in-place pass "inline silent" needs the dict order of the user rules
        order = " ".join(str(syms.rule(n)) for n, r0 in pI.rules.items()
                         if not isinstance(r0, BuiltInRule) and n in syms.exported)
        seqs.append((("inline silent",), "inline-silent"))
        seqs.append(((("inline silent", "inline silent"), "inline-silent+inline-silent"),
                     (("unroll", "inline silent", "inline built-in"), "unroll+inline-silent+inline-builtin"))
                    [len(case["grammar"]) % 2])
        any_id = syms.ids.get("ANY", 1000000)
        if not getattr(syms, "user_skip", False):     # never_skips_trivia looks a user rule SKIP up by name
            seqs.append((("skip",), "skip"))
            seqs.append(((("unroll", "skip"), "unroll+skip"), (("skip", "inline silent", "skip"), "skip+inline-silent+skip"))
                        [len(case["grammar"]) % 2])
        for pnames, key in seqs:
            pname = " + ".join(pnames)
            try:
                step = [st for nm in pnames for st in _DP if st.name == nm]
                p1 = _Parser.from_grammar(case["grammar"], optimizer=_Opt(step))
                roots = list(syms.exported) + (["SKIP"] if "SKIP" in p1.rules and "SKIP" not in syms.exported else [])
                sexp_1, _ = export_parser(p1, roots=roots, syms=syms)
                ans = _drv.ask(f"U {key} ({bis}) (order {order}) (any {any_id}) " + sexp_1)
            except ExportError as e:
                ans = f"EXPORT {e}"
            except Exception as e:  # noqa: BLE001
                ans = f"BUILD {type(e).__name__}"
            if ans.startswith("SAME"):
                pm["same"] += 1
                pm["changed"] += int(sexp_1 != sexp)
                pm["outside_theorem_domain"] += int("outside-domain" in ans)
            else:
                pm["diff"] += 1
                out["viol"].append({"judge": "tie", "what": f"the table produced by the optimizer pass {pname!r} alone differs "
                                    f"from the table the model of that pass (OptPass.v) computes: {ans[:200]}",
                                    "case": case, "original": sexp})
        if _drv.ask("G " + sexp) != "OK" or _drv.ask("B " + " ".join(map(str, syms.inlined))) != "OK":
            out["viol"].append({"judge": "tie", "what": "driver lost the grammar", "case": case})
            return out

    if "C07" in judges:
        # termination certificate (SpecCert.wf_auto, extracted): inside the domain of C07_terminates_auto?
        w = _drv.ask("W")
        out["wf"] = {"certified": int(w == "WF"), "not_certified": int(w != "WF")}

    names_ok = {n for n, r in pI.rules.items() if not (r.modifier & SILENT)}
    import re as _re
    tags_ok = set(_re.findall(r"#([_a-zA-Z][_a-zA-Z0-9]*)\s*=", case["grammar"]))
    uses_soi = "SOI" in case["grammar"]

    # C01: generated source compiles; generating twice is byte-identical
    if "C01" in judges:
        for m in ("IG", "OG"):
            if m in modes and m in b.err:
                out["viol"].append({"judge": "C01", "what": f"generated module ({m}) does not load: {b.err[m]}",
                                    "case": case})
            elif m in modes:
                again = b.parsers[m + ":parser"].generate()
                if again != b.sources[m]:
                    out["viol"].append({"judge": "C01", "what": f"generate() twice differs ({m})", "case": case})
    if "C02" in judges or "C01" in judges:
        for m in ("O", "OG"):
            if m in modes and m in b.err and "I" not in b.err:
                out["viol"].append({"judge": "C02" if "C02" in judges else "C01",
                                    "what": f"optimized parser ({m}) does not build: {b.err[m]}", "case": case})

    inputs = inputs_for(case)
    for rule in case["rules"]:
        rid = syms.rule(rule)
        rule_silent = bool(pI.rules[rule].modifier & SILENT) if rule in pI.rules else True
        qs = []
        pts = []
        for text in inputs:
            for k in starts_for(case, text):
                qs.append(f"P {rid} {k} {opts.get('fuel', FUEL)} {cps(text)}")
                pts.append((text, k))
        ms = _drv.ask_many(qs)
        mis = _drv.ask_many(["PI" + q[1:] for q in qs]) if "TIE" in judges else [None] * len(qs)
        mgs = _drv.ask_many(["PG" + q[1:] for q in qs]) if "TIE" in judges else [None] * len(qs)
        for (text, k), m, mi, mg in zip(pts, ms, mis, mgs):
            out["cases"] += 1
            if m in ("FUEL", "ERR") or m.startswith("DRIVER-ERROR"):
                if m.startswith("DRIVER-ERROR"):
                    out["viol"].append({"judge": "tie", "what": m, "case": case, "rule": rule, "text": text, "k": k})
                out["excluded"] += 1
                continue
            res = {}
            lines = {"M": m}
            if mi is not None:
                lines["MI"] = mi
            if mg is not None:
                lines["MG"] = mg
            if case.get("family") in ("G2", "G3") and time.time() - t_case > CASE_BUDGET:
                # a random / bundled grammar that needs seconds per parse (exponential backtracking): the rest of its
                # inputs get no verdict instead of occupying a worker for hours
                out["slow"] = out.get("slow", 0) + 1
                out["excluded"] += 1
                return out
            slow = False
            for mode in modes:
                if mode in b.err:
                    continue
                r = b.run(mode, rule, text, k)
                res[mode] = r
                lines[mode] = impl.render(r, syms)
                out["evals"] += 1
                if r[0] == "EXC" and r[1] == "Timeout":
                    slow = True
                    break
            if slow and case.get("family") in ("G2", "G3"):
                # random / bundled grammars can need exponential time although they terminate (the reference
                # semantics did finish): the 2 s + 20 s timer protects the harness and is not a verdict. The input
                # gets none, and after two such inputs the rest of the grammar is skipped. (For the small
                # template grammars of the other families a parse that does not finish IS reported.)
                out["slow"] = out.get("slow", 0) + 1
                out["excluded"] += 1
                if out["slow"] >= 2:
                    return out
                continue
            if m.startswith("OK"):
                out["accepted"] += 1
            else:
                out["rejected"] += 1
            if m.startswith("OK (") or (m.startswith("FAIL") and not m.startswith(f"FAIL {k} ")):
                out["nontrivial"] += 1
            v = judge(judges, lines, res, case, rule, text, k, names_ok, tags_ok, rule_silent, uses_soi, b, syms, opts)
            for j, what in v:
                out["viol"].append({"judge": j, "what": what, "case": _slim(case), "rule": rule, "text": text,
                                    "k": k, "results": lines})
                out["kinds"][j] = out["kinds"].get(j, 0) + 1
            if len(out["viol"]) > 40:
                return out
    return out


def _slim(case: dict) -> dict:
    return {k: v for k, v in case.items() if k != "inputs"}


def _passes(case: dict):
    spec = case.get("passes")
    if spec is None:
        return None
    from pest.grammar.optimizer import DEFAULT_OPTIMIZER_PASSES
    by = {s.name: s for s in DEFAULT_OPTIMIZER_PASSES}
    return [by[n] for n in spec]


_CANARY = None


def _canary_check() -> list[str]:
    global _CANARY
    if _CANARY is None:
        from pest import Parser
        # the canary goes through the ordinary backtracking paths (an optional that misses, a choice whose first
        # alternative fails, a predicate, the end of a repetition) before its inner rule completes
        p = Parser.from_grammar('canary = { "x"? ~ ("y" | inner) ~ !"z" ~ last* }\ninner = { "c" }\nlast = { "d" }',
                                optimizer=None)
        ns: dict = {"__name__": "generated_canary"}
        exec(compile(p.generate(), "<canary>", "exec"), ns)  # noqa: S102
        _CANARY = (p, ns["parse"])
    bad = []
    for nm, fn in (("interpreter", lambda: _CANARY[0].parse("canary", "c")),
                   ("generated module", lambda: _CANARY[1]("canary", "c"))):
        try:
            pairs = list(fn())
            kids = list(pairs[0].children) if len(pairs) == 1 else []
            ok = (len(pairs) == 1 and pairs[0].tag is None and pairs[0].name == "canary"
                  and (pairs[0].start, pairs[0].end) == (0, 1) and len(kids) == 1 and kids[0].name == "inner"
                  and kids[0].tag is None and (kids[0].start, kids[0].end) == (0, 1) and not list(kids[0].children))
        except Exception:  # noqa: BLE001
            ok = False
        if not ok:
            bad.append(nm)
    return bad


def judge(judges, lines, res, case, rule, text, k, names_ok, tags_ok, rule_silent, uses_soi, b, syms, opts):
    import impl
    v = []
    m = lines["M"]
    have = [md for md in ("I", "O", "IG", "OG") if md in lines]
    for j in judges:
        if j == "C01":
            for a, g in (("I", "IG"), ("O", "OG")):
                if a in lines and g in lines and impl.strip_sets(lines[a]) != impl.strip_sets(lines[g]):
                    v.append((j, f"{g} differs from {a}"))
        elif j == "C02":
            for a, o in (("I", "O"), ("IG", "OG")):
                if a in lines and o in lines and impl.outcome(lines[a]) != impl.outcome(lines[o]):
                    v.append((j, f"{o} differs from {a}"))
        elif j in ("C03", "C04", "C05", "SPEC"):
            for md in have:
                if impl.outcome(lines[md]) != impl.outcome(m):
                    v.append((j, f"mode {md} differs from the reference semantics"))
        elif j == "TIE":
            if "I" in lines and lines["I"] != m:
                v.append(("tie", "mode I differs from the model (tree, failure position or expected sets)"))
            if "MI" in lines and lines["MI"] != m:
                v.append(("tie", "the interpreter model (Interp.v) differs from the reference semantics (Spec.v)"))
            if "MG" in lines and impl.strip_sets(lines["MG"]) != impl.strip_sets(m):
                v.append(("tie", "the generated-code model (Gen.v) differs from the reference semantics (Spec.v)"))
            if "IG" in lines and "MG" in lines and lines["IG"] != lines["MG"]:
                v.append(("tie", "mode IG differs from the generated-code model (tree, failure position or expected sets)"))
            if "IG" in lines and impl.strip_sets(lines["IG"]) != impl.strip_sets(m):
                v.append(("tie", "mode IG differs from the model (tree or failure position)"))
        elif j == "C07":
            for md in have:
                if lines[md].startswith("EXC"):
                    v.append((j, f"mode {md} raised {lines[md][4:]}"))
                else:
                    r2 = b.run(md, rule, text, k) if opts.get("repeat", True) else None
                    if r2 is not None and r2[0] == "EXC" and r2[1] == "Timeout":
                        r2 = None   # the first call finished: a timer firing on the repeat is load, not a verdict
                    if r2 is not None and impl.render(r2, syms) != lines[md]:
                        v.append((j, f"mode {md}: repeating the call gave a different result: {impl.render(r2, syms)[:200]}"))
            # determinism across calls: whatever was parsed so far, an unrelated parser must still return the same
            # result for the same call (state that outlives a parse() shows here even when every repetition of
            # the polluted call is polluted the same way)
            for nm in _canary_check():
                v.append((j, f"after these calls, parse('canary', 'c') on an unrelated parser ({nm}) no longer returns its "
                             "untagged tree canary > inner: the result of a call depends on earlier calls"))
        elif j == "C06":
            for md in have:
                r = res[md]
                if r[0] == "OK":
                    p = tree_problems(r, text, k, names_ok | {"EOI"}, tags_ok, not rule_silent)
                    if p:
                        v.append((j, f"mode {md}: {p}"))
        elif j == "C13":
            for md in have:
                r = res[md]
                if r[0] == "FAIL":
                    p = fail_problems(b, md, rule, text, k, r)
                    if p:
                        v.append((j, f"mode {md}: {p}"))
        elif j == "C16":
            if not uses_soi and k > 0:
                for md in have:
                    r0 = b.run(md, rule, text[k:], 0)
                    sh = shift_line(impl.strip_sets(impl.render(r0, syms)), k)
                    if sh != impl.strip_sets(lines[md]):
                        v.append((j, f"mode {md}: start_pos={k} gives {impl.strip_sets(lines[md])!r}, suffix shifted gives {sh!r}"))
                    alt = "".join("b" if c == "a" else "a" for c in text[:k]) + text[k:]
                    r1 = b.run(md, rule, alt, k)
                    if impl.strip_sets(impl.render(r1, syms)) != impl.strip_sets(lines[md]):
                        v.append((j, f"mode {md}: result depends on characters before start_pos"))
    return v


def shift_line(line: str, k: int) -> str:
    import re
    if line.startswith("FAIL"):
        p = int(line.split()[1])
        return f"FAIL {p + k if p >= 0 else p}"
    if line.startswith("OK"):
        return re.sub(r"\((\d+) (\d+) (\d+) ", lambda mm: f"({mm.group(1)} {int(mm.group(2)) + k} {int(mm.group(3)) + k} ", line)
    return line


def _drv_context(text: str, pos: int):
    """error_context of the extracted Coq model (LineCol.v)."""
    m = _drv.ask(f"E {pos} " + cps(text))
    line, ln, col = m.split("|")
    return ("".join(chr(int(x)) for x in line.split(".") if x), int(ln), int(col))


def fail_problems(b, mode, rule, text, k, r):
    """C13: position range, names, rendering, line:col of the rendered message."""
    from pest.exceptions import PestParsingError, error_context
    pos = r[1]
    if not (pos == -1 or k <= pos <= len(text)):
        return f"furthest_pos {pos} outside [{k},{len(text)}]"
    p = b.parsers[mode]
    rules = b.parsers["I"].rules          # the grammar's own rules and the built-ins (no synthetic SKIP)
    for nm in r[2] + r[3]:
        if nm not in rules:
            return f"listed rule name {nm!r} is not a rule of the grammar or a built-in"
    try:
        if mode in ("I", "O"):
            p.parse(rule, text, start_pos=k)
        else:
            p(rule, text, start_pos=k)
    except PestParsingError as e:
        try:
            msg = str(e)
            msg2 = e.detailed_message()
        except Exception as ex:  # noqa: BLE001
            return f"str(PestParsingError) raised {type(ex).__name__}: {ex}"
        if pos >= 0:
            want = _drv_context(text, pos)
            got = error_context(text, pos)
            if tuple(got) != tuple(want):
                return f"error_context({text!r},{pos}) = {got!r}, expected {want!r}"
            if f" {want[1]}:{want[2]}\n" not in msg or f"{want[1]} | {want[0]}\n" not in msg2:
                return "message does not show the line:column / source line of the failure position"
    except Exception as ex:  # noqa: BLE001
        return f"re-running raised {type(ex).__name__}"
    return None


# ----------------------------------------------------------------------------- pool

def _guarded(results, is_pool: bool, limit: float = 1500.0):
    """Iterate over pool results, but never wait forever: if a worker process is killed from outside, its task is
    lost and imap_unordered would block for good. After `limit` seconds without any result the run is reported
    as a harness failure (a broken tie), not left hanging."""
    if not is_pool:
        yield from results
        return
    import multiprocessing
    while True:
        try:
            yield results.next(timeout=limit)
        except StopIteration:
            return
        except multiprocessing.TimeoutError:
            yield {"fatal": f"no result from any worker for {limit:.0f} s: a worker process was lost", "case": {}}
            return


def run_cases(cases: list[dict], judges: list[str], opts: dict | None = None, nproc: int | None = None):
    opts = opts or {}
    nproc = nproc or NCPU
    args = [(c, judges, opts) for c in cases]
    agg = {"evals": 0, "cases": 0, "viol": [], "excluded": 0, "accepted": 0, "rejected": 0,
           "grammars": 0, "nontrivial": 0, "fatal": [], "labels": [], "build_errors": 0, "kinds": {}}
    if nproc <= 1:
        _init()
        results = map(run_case, args)
    else:
        ctx = mp.get_context("fork")
        pool = ctx.Pool(nproc, initializer=_init)
        results = pool.imap_unordered(run_case, args)
    results = _guarded(results, nproc > 1)
    for r in results:
        if "fatal" in r:
            agg["fatal"].append(r)
            continue
        agg["grammars"] += 1
        for key in ("evals", "cases", "excluded", "accepted", "rejected", "nontrivial"):
            agg[key] += r[key]
        if "build_error" in r:
            agg["build_errors"] += 1
        for kk, vv in r["kinds"].items():
            agg["kinds"][kk] = agg["kinds"].get(kk, 0) + vv
        if r.get("slow"):
            agg["slow_inputs"] = agg.get("slow_inputs", 0) + r["slow"]
        if "wf" in r:
            wf = agg.setdefault("wf", {"certified": 0, "not_certified": 0})
            for kk in wf:
                wf[kk] += r["wf"][kk]
        if "optcheck" in r:
            oc = agg.setdefault("optcheck", {"valid": 0, "invalid": 0, "changed": 0})
            for kk in oc:
                oc[kk] += r["optcheck"][kk]
        if "passmodel" in r:
            pmm = agg.setdefault("passmodel", {"same": 0, "diff": 0, "changed": 0, "outside_theorem_domain": 0})
            for kk in pmm:
                pmm[kk] += r["passmodel"][kk]
        agg["viol"].extend(r["viol"])
        if len(agg["labels"]) < 5:
            agg["labels"].append(r["label"])
    if nproc > 1:
        if agg["fatal"]:
            pool.terminate()
        else:
            pool.close()
        pool.join()
    return agg
