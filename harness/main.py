"""Entry point of ./check: build, proof obligations, correspondence + property-level search,
evidence, verdict."""

from __future__ import annotations

import argparse
import json
import os
import sys
import time

import common


def main() -> int:
    ap = argparse.ArgumentParser()
    ap.add_argument("prop")
    ap.add_argument("--tier", default=os.environ.get("VERIF_TIER", "quick"))
    ap.add_argument("--replay")
    ap.add_argument("--no-build", action="store_true")
    args = ap.parse_args()
    prop = args.prop
    tier = "thorough" if args.tier == "thorough" else "quick"
    seed = int(os.environ.get("VERIF_SEED", "1") or 1)
    t0 = time.time()

    if args.replay:
        import replay
        return replay.run(prop, args.replay)

    # 1. build (data regenerated from /repo, Coq, extraction, driver)
    b = common.build() if not args.no_build else None
    build_ok = b is None or b.ok
    if not build_ok:
        common.log("BUILD FAILED:\n" + b.output[-3000:])

    # 2. proof obligations
    gate = common.gate_sources()
    ps = common.proof_status(prop)
    proofs_ok = build_ok and not gate and ps["ok"]
    if thorough_coqchk(tier, prop, ps) is False:
        proofs_ok = False
        ps["detail"] = (ps.get("detail") or "") + " coqchk failed"

    # 3/4. correspondence and property-level search
    import checks
    fn = checks.CHECKS.get(prop)
    if fn is None:
        print(f"unknown property {prop}", file=sys.stderr)
        return 2
    res = None
    crash = None
    if os.path.exists(common.DRIVER):
        try:
            res = fn(tier, seed)
        except Exception:  # noqa: BLE001
            import traceback
            crash = traceback.format_exc()
            common.log(crash)
    else:
        crash = "extracted model driver is missing (build failed)"

    # 5. verdict
    known = common.load_known()
    known_sigs = {f["signature"]: f for f in known.get("findings", []) if f.get("property") == prop}
    lines: list[str] = []
    status = 0
    n_viol = 0
    seen_known: set[str] = set()
    if res is not None:
        reported = 0
        for v in res.violations:
            sig = v.get("signature") or v["what"]
            if sig in known_sigs:
                if sig not in seen_known:
                    seen_known.add(sig)
                    lines.append(f"KNOWN-FINDING: property={prop} {known_sigs[sig]['what']}")
                continue
            n_viol += 1
            if reported < 5:
                path = common.write_replay(prop, {"property": prop, "what": v["what"], "replay": v["replay"]})
                lines.append(f"VIOLATION property={prop} replay={path}")
                reported += 1
            status = 1
    broken: list[str] = []
    if not proofs_ok:
        broken.append("proof obligations: " + "; ".join(
            x for x in ([f"build failed in {b.failed_file}" if b is not None and not b.ok else ""]
                        + gate + [ps.get("detail", "")] + [f"axioms: {ps['axioms']}" if ps.get("axioms") else ""]) if x))
    if res is not None and res.tie_breaks:
        broken.append(f"correspondence: {len(res.tie_breaks)} disagreement(s) between model and implementation")
    if crash:
        broken.append("check crashed: " + crash[-1500:])
    if broken and status == 0:
        # the property is no longer shown to hold, although no failing input was found
        payload = {"property": prop, "no_failing_input_found": True, "broken": broken,
                   "proof_status": ps,
                   "disagreements": (res.tie_breaks[:5] if res is not None else [])}
        path = common.write_replay(prop, payload)
        lines.append(f"VIOLATION property={prop} replay={path} no-failing-input-found")
        n_viol += 1
        status = 1

    # 6. evidence
    cov = {
        "obligations": ps["obligations"],
        "discharged": ps["discharged"] if proofs_ok else 0,
        "checker_cmd": "make -C /verif all  (coqc 8.16.1 full .vo build; Print Assumptions per property file; "
                       "coqchk -o in the thorough tier)",
        "trusted_base": trusted_base(ps),
        "evaluations": res.evaluations if res is not None else 0,
        "distinct_nontrivial": res.distinct_nontrivial if res is not None else 0,
        "rule": res.rule if res is not None else "",
        "samples": (res.samples if res is not None and res.samples else ["(none)"]),
        "exhaustive": bool(res.exhaustive) if res is not None else False,
        "theorems": ps["theorems"],
        "proof_files": ps["files"],
        "assumptions_closed": ps["closed"],
        "correspondence_disagreements": len(res.tie_breaks) if res is not None else None,
    }
    if res is not None:
        cov.update(res.extra)
    level = "proof" if ps["obligations"] > 0 else "exploration"
    common.write_evidence(prop, tier, seed, level, cov, time.time() - t0, n_viol,
                          ASSUMPTIONS, {"known_findings_reported": sorted(seen_known)})
    for ln in lines:
        print(ln)
    if status == 0:
        print(f"OK property={prop} tier={tier} evaluations={cov['evaluations']} "
              f"obligations={cov['obligations']} wall={time.time() - t0:.1f}s")
    return status


ASSUMPTIONS = [
    "Coq 8.16.1 kernel (coqc; vm_compute where a proof says so; no native_compute)",
    "extraction with ExtrOcamlBasic only and the OCaml driver (conv.ml, ext.ml, driver.ml)",
    "the Python harness: generators, AST exporter (fail-closed), canonicalisation, comparison",
    "CPython str/list semantics and the `regex` library as transcribed in the models",
    "the tie between model and code is differential execution on the generated cases, not a proof",
]


def trusted_base(ps: dict) -> list[str]:
    tb = list(ASSUMPTIONS)
    if ps.get("axioms"):
        tb.append("axioms reported by Print Assumptions: " + ", ".join(ps["axioms"]))
    else:
        tb.append("Print Assumptions: closed under the global context for every theorem of the property file")
    return tb


def thorough_coqchk(tier: str, prop: str, ps: dict):
    """In the thorough tier re-check the property's compiled file with coqchk."""
    if tier != "thorough" or not ps["obligations"]:
        return None
    import subprocess
    try:
        p = subprocess.run(["coqchk", "-silent", "-o", "-Q", common.COQ, "PP", f"PP.props.{prop}"],
                           capture_output=True, text=True, timeout=1500, cwd=common.COQ)
    except subprocess.TimeoutExpired:
        return False
    ps["coqchk"] = (p.stdout + p.stderr)[-1500:]
    return p.returncode == 0


if __name__ == "__main__":
    sys.exit(main())
