"""Reference reader for pest grammar texts (C10, C11).

The accept/reject decision and the parse tree come from the *extracted reference semantics*
(coq/Spec.v) run on pest's own meta-grammar (tests/grammars/meta.pest); `denote` turns that
tree into the rule table the text denotes, following pest_meta's consumer. The result is
compared with what python-pest's hand-written front end builds.
"""

from __future__ import annotations

import os

from common import REPO, VERIF

META_PATH = os.path.join(REPO, "tests/grammars/meta.pest")
META_SEXP = os.path.join(VERIF, "harness", "meta.sexp")

BUILTIN_TERMINALS = {"PEEK": "peek", "POP": "pop", "DROP": "drop", "PEEK_ALL": "peekall", "POP_ALL": "popall"}


class Meta:
    """The meta-grammar loaded into a driver process."""

    def __init__(self, drv) -> None:
        from pest import Parser

        from export import export_parser
        self.drv = drv
        text = open(META_PATH, encoding="utf-8").read()
        p = Parser.from_grammar(text, optimizer=None)
        sexp, syms = export_parser(p)
        self.sexp = sexp
        self.syms = syms
        self.names = list(syms.names)
        self.problem = None
        if os.path.exists(META_SEXP):
            want = open(META_SEXP).read().strip()
            if want != sexp.strip():
                self.problem = ("the rule table python-pest builds for tests/grammars/meta.pest differs from the "
                                "committed bootstrap copy harness/meta.sexp")
                # keep using the committed copy: it is the reference
                self.sexp = want
        r = drv.ask("G " + self.sexp)
        if r != "OK":
            raise RuntimeError("driver rejected the meta-grammar: " + r)
        self.start = syms.rule("grammar_rules")

    def read(self, text: str, fuel: int = 0):
        """-> ('OK', tree) | ('FAIL', pos) | ('FUEL',)  where tree = list of (name, s, e, kids)."""
        fuel = fuel or (4000 + 400 * len(text))
        cps = " ".join(str(ord(c)) for c in text)
        line = self.drv.ask(f"P {self.start} 0 {fuel} {cps}")
        if line.startswith("OK"):
            return ("OK", self._parse_tree(line[2:]))
        if line.startswith("FAIL"):
            return ("FAIL", int(line.split()[1]))
        return (line.split()[0],)

    def _parse_tree(self, s: str):
        toks = s.replace("(", " ( ").replace(")", " ) ").split()
        pos = 0

        def node():
            nonlocal pos
            assert toks[pos] == "("
            pos += 1
            name = self.names[int(toks[pos])]
            st, en = int(toks[pos + 1]), int(toks[pos + 2])
            pos += 4  # name s e tag
            kids = []
            while toks[pos] == "(":
                kids.append(node())
            pos += 1
            return (name, st, en, kids)

        out = []
        while pos < len(toks):
            out.append(node())
        return out


class DenoteError(Exception):
    pass


def unescape(body: str) -> str:
    """pest's string/char escapes: \\" \\\\ \\r \\n \\t \\0 \\' \\xHH \\u{H{2,6}}"""
    out = []
    i = 0
    while i < len(body):
        ch = body[i]
        if ch != "\\":
            out.append(ch)
            i += 1
            continue
        c = body[i + 1]
        if c in "\"\\'":
            out.append(c); i += 2
        elif c == "n":
            out.append("\n"); i += 2
        elif c == "r":
            out.append("\r"); i += 2
        elif c == "t":
            out.append("\t"); i += 2
        elif c == "0":
            out.append("\0"); i += 2
        elif c == "x":
            out.append(chr(int(body[i + 2:i + 4], 16))); i += 4
        elif c == "u":
            j = body.index("}", i)
            v = int(body[i + 3:j], 16)
            if v > 0x10FFFF or 0xD800 <= v <= 0xDFFF:
                # pest builds a Rust `char`: only Unicode scalar values exist (no surrogates, nothing above 10FFFF)
                raise DenoteError("not a Unicode scalar value")
            out.append(chr(v)); i = j + 1
        else:
            raise DenoteError("escape")
    return "".join(out)


def _num(digits: str) -> int:
    """pest reads repetition counts into u32 and slice bounds into i32: a larger number is not a pest grammar."""
    if len(digits.lstrip("-").lstrip("0")) > 10:
        raise DenoteError("number is too large")
    v = int(digits)
    if abs(v) > 0xFFFFFFFF:
        raise DenoteError("number is too large")
    return v


def denote(tree, text: str):
    """tree of `grammar_rules` -> (grammar docs, [(name, modifier, docs, expr)])."""
    gdocs = []
    rules = []
    pending_docs: list[str] = []
    for name, s, e, kids in tree:
        if name == "grammar_doc":
            gdocs.append(_doc(kids, text))
        elif name == "grammar_rule":
            if len(kids) == 1 and kids[0][0] == "line_doc":
                pending_docs.append(_doc(kids[0][3], text))
                continue
            ident = text[kids[0][1]:kids[0][2]]
            mod = ""
            for k in kids:
                if k[0].endswith("_modifier"):
                    mod = text[k[1]:k[2]]
            expr = [k for k in kids if k[0] == "expression"][0]
            rules.append((ident, mod, tuple(pending_docs), d_expr(expr, text)))
            pending_docs = []
        elif name == "EOI":
            pass
        else:
            raise DenoteError(f"unexpected top-level pair {name}")
    return tuple(gdocs), rules, tuple(pending_docs)


def _doc(kids, text):
    for k in kids:
        if k[0] == "inner_doc":
            return text[k[1]:k[2]]
    return ""


def d_expr(node, text):
    """expression = choice_operator? ~ term ~ (infix_operator ~ term)* ; `~` binds tighter than `|`."""
    kids = node[3]
    i = 0
    if kids and kids[0][0] == "choice_operator":
        i = 1
    alts: list[list] = [[]]
    while i < len(kids):
        k = kids[i]
        if k[0] == "term":
            alts[-1].append(d_term(k, text))
        elif k[0] == "sequence_operator":
            pass
        elif k[0] == "choice_operator":
            alts.append([])
        else:
            raise DenoteError(f"unexpected {k[0]} in expression")
        i += 1
    seqs = [a[0] if len(a) == 1 else ("seq", tuple(a)) for a in alts]
    return seqs[0] if len(seqs) == 1 else ("alt", tuple(seqs))


def d_term(node, text):
    kids = node[3]
    i = 0
    tag = None
    if kids[i][0] == "tag_id":
        tag = text[kids[i][1] + 1:kids[i][2]]
        i += 2  # tag_id, assignment_operator
    prefixes = []
    while kids[i][0] in ("positive_predicate_operator", "negative_predicate_operator"):
        prefixes.append(kids[i][0])
        i += 1
    # node
    k = kids[i]
    if k[0] == "opening_paren":
        inner = d_expr(kids[i + 1], text)
        e = ("grp", inner)
        i += 3
    else:
        e = d_terminal(k, text)
        i += 1
    primary = e[0]
    for k in kids[i:]:
        nm = k[0]
        if nm == "optional_operator":
            e = ("opt", e)
        elif nm == "repeat_operator":
            e = ("star", e)
        elif nm == "repeat_once_operator":
            e = ("plus", e)
        elif nm in ("repeat_exact", "repeat_min", "repeat_max", "repeat_min_max"):
            nums = [_num(text[c[1]:c[2]]) for c in k[3] if c[0] == "number"]
            if nm == "repeat_exact":
                e = ("repn", e, nums[0])
            elif nm == "repeat_min":
                e = ("repmin", e, nums[0])
            elif nm == "repeat_max":
                e = ("repmax", e, nums[0])
            else:
                e = ("repmm", e, nums[0], nums[1])
        else:
            raise DenoteError(f"unexpected postfix {nm}")
    for p in reversed(prefixes):
        e = ("and", e) if p == "positive_predicate_operator" else ("not", e)
    # a tag belongs to the whole term; on a string literal it cannot label anything
    if tag is not None and (prefixes or primary not in ("str", "ci")):
        e = ("tag", tag, e)
    return e


def d_string(node, text):
    for k in node[3]:
        if k[0] == "inner_str":
            return unescape(text[k[1]:k[2]])
    raise DenoteError("string without inner_str")


def d_terminal(k, text):
    nm = k[0]
    if nm == "identifier":
        ident = text[k[1]:k[2]]
        if ident in BUILTIN_TERMINALS:
            return (BUILTIN_TERMINALS[ident],)
        return ("ref", ident)
    if nm == "string":
        return ("str", d_string(k, text))
    if nm == "insensitive_string":
        return ("ci", d_string(k[3][0], text))
    if nm == "range":
        chars = [c for c in k[3] if c[0] == "character"]
        vals = []
        for c in chars:
            inner = [x for x in c[3] if x[0] == "inner_chr"][0]
            vals.append(unescape(text[inner[1]:inner[2]]))
        return ("rng", vals[0], vals[1])
    if nm == "_push":
        return ("push", d_expr([c for c in k[3] if c[0] == "expression"][0], text))
    if nm == "_push_literal":
        return ("pushlit", d_string([c for c in k[3] if c[0] == "string"][0], text))
    if nm == "peek_slice":
        a = b = None
        seen_op = False
        for c in k[3]:
            if c[0] == "range_operator":
                seen_op = True
            elif c[0] == "integer":
                v = _num(text[c[1]:c[2]])
                if seen_op:
                    b = v
                else:
                    a = v
        return ("peeksl", a, b)
    raise DenoteError(f"unexpected terminal {nm}")


# ---------------------------------------------------------------- what python-pest built

def canon_impl(parser) -> tuple:
    """The rule table python-pest's front end built, in the same vocabulary as `denote`."""
    from pest.grammar import expression as _expression
    from pest.grammar import rule as _rule
    from pest.grammar.expressions import choice as _choice
    from pest.grammar.expressions import group as _group
    from pest.grammar.expressions import postfix as _postfix
    from pest.grammar.expressions import prefix as _prefix
    from pest.grammar.expressions import sequence as _sequence
    from pest.grammar.expressions import terminals as _t

    POSTFIX = ("opt", "star", "plus", "repn", "repmin", "repmax", "repmm")

    def tagged(e, node):
        t = getattr(e, "tag", None)
        return ("tag", t, node) if t is not None else node

    def post(kind, e, *nums):
        """a postfix node; a tag on the operand floats out to the whole term"""
        c = x(e.expression)
        if c[0] == "tag":
            return ("tag", c[1], (kind, c[2], *nums))
        return (kind, c, *nums)

    def x(e):
        ty = type(e)
        if isinstance(e, _rule.Rule):
            return ("ref", e.name)
        if ty is _t.String:
            return ("str", e.value)
        if ty is _t.CIString:
            return ("ci", e.value)
        if ty is _t.Range:
            return tagged(e, ("rng", e.start, e.stop))
        if ty is _t.Identifier:
            return tagged(e, ("ref", e.value))
        if ty is _sequence.Sequence:
            return ("seq", tuple(x(c) for c in e.expressions))
        if ty is _choice.Choice:
            return ("alt", tuple(x(c) for c in e.expressions))
        if ty is _postfix.Optional:
            return post("opt", e)
        if ty is _postfix.Repeat:
            return post("star", e)
        if ty is _postfix.RepeatOnce:
            return post("plus", e)
        if ty is _postfix.RepeatExact:
            return post("repn", e, e.number)
        if ty is _postfix.RepeatMin:
            return post("repmin", e, e.number)
        if ty is _postfix.RepeatMax:
            return post("repmax", e, e.number)
        if ty is _postfix.RepeatMinMax:
            return post("repmm", e, e.min, e.max)
        if ty is _prefix.PositivePredicate:
            return tagged(e, ("and", x(e.expression)))
        if ty is _prefix.NegativePredicate:
            return tagged(e, ("not", x(e.expression)))
        if ty is _group.Group:
            return tagged(e, ("grp", x(e.expression)))
        if ty is _t.Push:
            return tagged(e, ("push", x(e.expression)))
        if ty is _t.PushLiteral:
            return tagged(e, ("pushlit", e.value))
        if ty is _t.Peek:
            return tagged(e, ("peek",))
        if ty is _t.PeekAll:
            return tagged(e, ("peekall",))
        if ty is _t.Pop:
            return tagged(e, ("pop",))
        if ty is _t.PopAll:
            return tagged(e, ("popall",))
        if ty is _t.Drop:
            return tagged(e, ("drop",))
        if ty is _t.PeekSlice:
            return tagged(e, ("peeksl", e.start, e.stop))
        raise DenoteError(f"front end built an unexpected {ty.__name__}")

    sym = {0: "", _rule.SILENT: "_", _rule.ATOMIC: "@", _rule.COMPOUND: "$", _rule.NONATOMIC: "!"}
    rules = []
    for name, r in parser.rules.items():
        if isinstance(r, _rule.BuiltInRule):
            continue
        rules.append((name, sym.get(r.modifier, f"?{r.modifier}"), tuple(r.doc or ()), x(r.expression)))
    return tuple(parser.doc or ()), rules


def canon_ref(d) -> tuple:
    """denote()'s result in the shape of canon_impl: references to built-in rule names carry no
    tag (python-pest embeds the built-in rule object), later definitions of a name win, trailing
    doc comments are dropped."""
    gdocs, rules, _trailing = d
    from pest import Parser
    builtins = Parser.BUILTIN

    POSTFIX = ("opt", "star", "plus", "repn", "repmin", "repmax", "repmm")

    def primary(e):
        while isinstance(e, tuple) and e and e[0] in POSTFIX:
            e = e[1]
        return e

    def fix(e):
        if not isinstance(e, tuple):
            return e
        if e[0] == "tag":
            p = primary(e[2])
            if isinstance(p, tuple) and p[0] == "ref" and p[1] in builtins and p[1] != "EOI":
                return fix(e[2])  # python-pest embeds the built-in rule object: the tag has no holder
        return tuple(fix(c) if isinstance(c, tuple) else c for c in e)

    table: dict[str, tuple] = {}
    for name, mod, docs, expr in rules:
        table[name] = (name, mod, docs, fix(expr))
    return gdocs, list(table.values())
