"""Hand-written edge texts for tie.py."""
R = lambda body: "a = { " + body + " }"  # noqa: E731

EDGES: list[str] = []
E = EDGES.append

# --- empty / trivia only
for g in ["", " ", "\n", "\r\n", "\r", "\t \n", "// only a comment", "// c\n", "/* block */", "/* a /* nested */ b */",
          "/* unterminated", "/* a /* nested */ unterminated", "/*/", "/**/", "/***/", "/* * / */", "/*/*/**/*/*/",
          "/* /* */", "/* */ */", "//", "/", "/ /", "//! grammar doc", "//!", "//!\n", "//! a\n//! b\n", "//!\ta\n//!  two spaces\n",
          "/// rule doc", "///", "///\n", "/// a\n/// b", "//// four slashes", "//!! x", "//! d\r\nx = {\"a\"}",
          "// c\r\n/* b */ \t\r\n", "//! doc\n/// rdoc\na = { \"x\" }", "/// doc\n//! late grammar doc\na = { \"x\" }",
          "a = { \"x\" }\n//! late", "a = { \"x\" }\n/// trailing doc", "a = { \"x\" }\n/// trailing doc\n", "a = { \"x\" } ///",
          "/// d1\n\n/// d2\n// plain\n/* b */ a = { \"x\" }", "///\n///\na={b}", "/// \n///  \n///\t\ta={b}\na={b}", "///x\r\na={b}", "/// x\r", "//!x\r\r\n a={b}"]:
    E(g)

# --- rule headers
for g in ["a", "a =", "a = {", "a = { b", "a = { b }", "a={b}", "a = b", "= { b }", "a { b }", "a = _{ b }", "a = @{ b }", "a = ${ b }",
          "a = !{ b }", "a = _ { b }", "a = @ /* c */ { b }", "a = _@{ b }", "a = #{ b }", "a = ^{ b }", "a = { }", "a = {}", "a = { b } }",
          "a = { b } b = { a } c = _{ a | b }", "a = { b }\r\nb = { c }\r\n", "1a = { b }", "_ = { b }", "_a1 = { b }", "a-b = { c }",
          "a = { b } a = { c }", "a = { b } x = { c } a = @{ d }", "ANY = { \"x\" } b = { ANY }", "b = { \"y\" } SOI = { b } ANY = { b } c = { SOI }",
          "EOI = { \"x\" }", "PUSH = { b }", "PUSHa = { b }", "  PUSH_x = { b }", "POP = { b }", "POPx = { b }", "PEEK = { b }", "DROP = { b }",
          "PEEK_ALL = { b }", "é = { b }", "a = { é }", "a\u00a0= { b }", "a = { b }\u2028c = { d }", "a = { b }\x0c", "a = { b }\x0b c = {d}",
          "WHITESPACE = _{ \" \" } COMMENT = _{ \"#\" }", "a = { b } ; c = { d }"]:
    E(g)

# --- strings and escapes
for body in ['""', '"a"', '"abc" ~ "d"', '"', '"abc', '"abc\\', '"abc\\"', '"\\n\\r\\t\\0\\\\\\"\\\'"', '"\\a"', '"\\ "', '"\\N"', '"\\1"',
             '"\\x41"', '"\\x4"', '"\\x"', '"\\xZZ"', '"\\x4G"', '"\\xé1"', '"\\x4', '"\\xFF"', '"\\xff\\x00"', '"\\x7f\\x80"',
             '"\\u{41}"', '"\\u{1}"', '"\\u{}"', '"\\u{123}"', '"\\u{1234}"', '"\\u{12345}"', '"\\u{10FFFF}"', '"\\u{110000}"',
             '"\\u{FFFFFF}"', '"\\u{1234567}"', '"\\u{D7FF}"', '"\\u{D800}"', '"\\u{DFFF}"', '"\\u{E000}"', '"\\u{dbff}"', '"\\u{00}"',
             '"\\u{000041}"', '"\\u{0000041}"', '"\\u{GG}"', '"\\u{4G}"', '"\\u{ 41}"', '"\\u{41 }"', '"\\u{41"', '"\\u{41', '"\\u41"', '"\\u"',
             '"\\u', '"\\u{é1}"', '"\\u{41}}"', '"a\\u{41}b\\x42c\\n"', '"\\u{41}\\u{}"', '"}\\u{41"', '"\\u{" ~ "}"', '"\\\\u{41}"',
             '"é ü 日本 \U0001f600"', '"a\nb"', '"a\r\nb"', '"\t"', '"\x00"', '"//"', '"/* */"', '"\'"', "\"'a'\"",
             '^"a"', '^"ABC"', '^ "a"', '^/* c */"a"', '^\n"a"', '^"', '^', '^a', '^\'a\'', '^"\\n"', '^"\\x41\\u{42}"', '^"\\q"', '^"abc', '^"é"', '^""', '^^"a"',
             "\"\\'\"", '"\\x41\\', '"\\u{0041}\\x4"']:
    E(R(body))

# --- characters and ranges
for body in ["'a'..'z'", "'a' .. 'z'", "'a'../* c */'z'", "'a'", "'a'..", "'a'..b", "'a'..\"z\"", "'a'.'z'", "'a'...'z'", "'z'..'a'", "'a'..'a'",
             "'\\n'..'\\r'", "'\\t'..'\\\\'", "'\\''..'\\\"'", "'\\0'..'\\x7f'", "'\\x00'..'\\xff'", "'\\x0'..'a'", "'\\xGG'..'a'", "'\\u{41}'..'\\u{5A}'",
             "'\\u{1}'..'a'", "'\\u{10FFFF}'..'\\u{10FFFF}'", "'\\u{110000}'..'a'", "'a'..'\\u{110000}'", "'\\u{D800}'..'a'", "'\\u{DFFF}'..'\\u{E000}'",
             "'\\u{0000041}'..'a'", "'\\u{FFFFFF}'..'a'", "'\\u{00}'..'\\u{000000}'", "'\\'..'a'", "'a'..'\\'", "'\\a'..'b'", "''..'a'", "'ab'..'c'", "'", "'a",
             "'\\", "'\\'", "'\\''", "'''..'a'", "'\"'..'\\\"'", "'é'..'ü'", "'\U0001f600'..'\U0001f64f'", "'\n'..'\r'", "'\\u{e9}'..'é'", "'\\x41'..'\\u{42}' ~ 'a'..'b'",
             "#t = 'a'..'z'", "'\\u{41}..'a'", "'\\u{41'..'a'", "'\\x41..'a'"]:
    E(R(body))

# --- postfix / repeat
for body in ["b?", "b*", "b+", "b?*+", "b ? * +", "b /* c */ ?", "b\n*", "b{3}", "b{ 3 }", "b{3,}", "b{,3}", "b{3,4}", "b{ 3 , 4 }", "b{4,3}", "b{0}", "b{00}", "b{,0}",
             "b{}", "b{,}", "b{,,}", "b{3,4,5}", "b{3 4}", "b{3", "b{3,", "b{3,4", "b{a}", "b{-1}", "b{+1}", "b{3}{4}", "b{3}?", "b?{3}", "b{1,}{,2}*", "(b){2}", "\"x\"{2}",
             "b{" + "9" * 30 + "}", "b{" + "1" * 4300 + "}", "b{" + "1" * 4301 + "}", "b{" + "0" * 4301 + "}", "b{" + "0" * 4300 + "}", "b{1," + "2" * 5000 + "}",
             "b{" + "3" * 5000 + ",1}", "b{," + "4" * 4301 + "}", "b{" + "1" * 4301, "b{" + "5" * 4301 + ",}", "b{" + "6" * 4301 + ", x}",
             "?", "*b", "b ~ ?", "b**", "b++", "b??", "b + + c", "b+ ~ +c"]:
    E(R(body))

# --- prefix chains, groups, infix
for body in ["&b", "!b", "&!&b", "! & ! b", "&/* c */!b", "&", "!", "&!", "& ~ b", "&(b)", "!(b | c)*", "&b?", "!b ~ c", "&b | !c ~ d", "b & c", "b ! c",
             "(b)", "((b))", "(b", "b)", "()", "( )", "(b ~)", "(| b)", "(b |)", "| b", "| b | c", "|| b", "b || c", "b | | c", "b ~ ~ c", "b ~ | c", "b | ~ c", "~ b", "b ~", "b |",
             "b ~ c ~ d", "b | c | d", "b ~ c | d ~ e", "b | c ~ d | e", "(b | c) ~ (d | e)", "b ~ (c ~ d)", "(b ~ c) ~ d", "b | (c | d)", "(b | c) | d", "b ~ (c | d) ~ e",
             "b ~ c* | !d+ ~ (e | f{2})?", "b c", "b, c", "b ~ c }", "(((((((((((b)))))))))))", "(" * 50 + "b" + ")" * 50, "(" * 50 + "b" + ")" * 49, "&" * 60 + "b"]:
    E(R(body))

# --- tags
for body in ["#t = b", "#t=b", "#tag_1 = b", "#_ = b", "#t = b ~ #u = c", "#t = (b | c)", "#t = &b", "& #t = b", "#t = !b", "#t b", "#t", "# t = b", "#1 = b", "#t = #u = b",
             "#t = \"s\"", "#t = ^\"s\"", "#t = PUSH(b)", "#t = PUSH_LITERAL(\"x\")", "#t = PEEK", "#t = PEEK[1..2]", "#t = PEEK_ALL", "#t = POP", "#t = POP_ALL", "#t = DROP",
             "#t = ANY", "#t = ASCII_DIGIT+", "#t = EOI", "#t = SOI", "#t = b*", "#t = b{2}", "#é = b", "#t /* c */ = /* d */ b", "#t == b", "(#t = b)", "#t = (#u = b)", "b ~ #t", "#"]:
    E(R(body))

# --- stack operations and keywords
for body in ["PUSH(b)", "PUSH (b)", "PUSH( b ~ c )", "PUSH(b", "PUSH b", "PUSH", "PUSH()", "PUSH(PUSH(b))", "PUSHb", "PUSH_(b)", "PUSHER", "PUSH_LITERAL(\"a\")", "PUSH_LITERAL ( \"a\" )",
             "PUSH_LITERAL(\"\\n\\u{41}\")", "PUSH_LITERAL(\"\\q\")", "PUSH_LITERAL(b)", "PUSH_LITERAL(^\"a\")", "PUSH_LITERAL()", "PUSH_LITERAL", "PUSH_LITERAL(\"a\"", "PUSH_LITERAL(\"a\" b)",
             "PUSH_LITERALx(\"a\")", "PUSH_LITERAL_X", "PUSH_LIT", "PEEK", "PEEK_ALL", "POP", "POP_ALL", "DROP", "PEEKa", "PEEK_", "PEEK_ALL_", "PEEK_ALLx", "POPx", "POP_", "POP_ALLx", "POP_AL",
             "DROPx", "DROP_", "DROP1", "PEEK1", "POP ~ PEEK ~ DROP ~ POP_ALL ~ PEEK_ALL", "PEEK*", "POP?", "DROP+", "PEEK ?", "PEEK ~ b", "PEEK /* c */ [1..2]", "PEEK\n[1..2]",
             "PEEK[..]", "PEEK[1..]", "PEEK[..2]", "PEEK[1..2]", "PEEK[-1..-2]", "PEEK[ -1 .. -2 ]", "PEEK[0..0]", "PEEK[00..007]", "PEEK[-0..1]", "PEEK[-01..1]", "PEEK[-001..-0002]",
             "PEEK[--1..]", "PEEK[+1..]", "PEEK[1 2..]", "PEEK[1.2]", "PEEK[1...2]", "PEEK[1..2", "PEEK[1..", "PEEK[1", "PEEK[", "PEEK[]", "PEEK[a..b]", "PEEK[1..2]]", "PEEK[1..2]*", "PEEK[1..2]{3}",
             "PEEK[" + "7" * 4300 + "..]", "PEEK[" + "7" * 4301 + "..]", "PEEK[.." + "8" * 4301 + "]", "PEEK[-" + "9" * 4300 + "..]", "PEEK[-" + "9" * 4301 + "..]", "PEEK[-" + "0" * 4300 + "1..]",
             "PEEK[-" + "0" * 4299 + "1..]", "PEEK[" + "0" * 4301 + "..-" + "0" * 5000 + "1]", "PEEK[" + "1" * 4301 + "..x]", "PEEK[1.." + "2" * 4301, "PEEK [..] ~ PEEK[ .. ]", "PEEK(b)", "POP(b)"]:
    E(R(body))

# --- misc: CRLF, non-ASCII, comments inside rules, lone surrogates
for g in ["a = {\r\n  b ~\r\n  c\r\n}\r\n", "a = { b // comment\r\n ~ c }", "a = { b /* é 日本 */ ~ c }", "// é 日本 \U0001f600\na = { b }", "/// é doc\na = { b }", "//! é gdoc\r\na = { b }",
          "a = { b // unterminated line comment }", "a = { b /* unterminated }", "a = { /* c */ }", "a = { // c\n }", "a /* c */ = /* d */ _ /* e */ { /* f */ b /* g */ } /* h */",
          "a = { b } // trailing", "a = { b } /* trailing", "a = { \"é\" ~ ^\"Ü\" ~ 'α'..'ω' }", "a = { b }\x00", "\ufeffa = { b }", "a = { \"\ud800\" }", "a = { \"\\x\ud800a\" }",
          "a = { \"\\xa\udfff\" }", "a = { \"\\u{\ud800a}\" }", "a = { \"\\u{4\udc001}\" }", "a = { ^\"\\x\ud8000\" }", "a = { '\ud800'..'\udfff' }", "a = { PUSH_LITERAL(\"\\u{\udbffaa}\") }",
          "// \ud800\na = { b }", "a = { \"\\x\ud800\" }", "a = { \"\\u{\ud800}\" }", "a = { \"\\u{\ud800\" }", "a = { \"\\xq\ud800\" }", "a = { \"\\uq\ud800\" }",
          "a = { \"\\u{1234567\ud800}\" }", "a = { \"\\q\" ~ \"\\x\ud800a\" }", "a = { \"\\x\ud800a\" ~ \"\\q\" }"]:
    E(g)

# --- around MAX_NUMBER = 0xFFFFFFFF (parser._int)
for n in ["4294967295", "4294967296", "00004294967296", "00004294967295", "4294967294", "42949672950", "0"]:
    for body in ["b{%s}", "b{%s,}", "b{,%s}", "b{1,%s}", "b{%s,1}", "b{%s,%s}" % ("%s", n), "PEEK[%s..]", "PEEK[..%s]", "PEEK[%s..1]", "PEEK[1..%s]"]:
        E(R(body % n))
for n in ["-4294967295", "-4294967296", "-00004294967296", "-00004294967295", "-1"]:
    for body in ["PEEK[%s..]", "PEEK[..%s]", "PEEK[%s..1]", "PEEK[1..%s]", "PEEK[%s..%s]" % ("%s", n), "PEEK[4294967296..%s]", "PEEK[%s..4294967296]", "b{%s}"]:
        E(R(body % n))

# --- runs of infix operators (parse_infix_expression collects a run in a loop)
for body in ["a" + " ~ a" * 2999, "a" + " | a" * 2999, "a" + "~a" * 1500 + "|b" + "~c" * 1500, "| a" + " | b ~ c" * 1000,
             "a ~ b | c ~ d | e", "a | b ~ c | d ~ e ~ f | g", "a ~ b ~ c | d | e ~ f", "| a ~ b | c", "| a | b", "|a~b~c", "a ~ b ~ }", "a ~ b ~", "a | b | ~ c",
             "a | b | | c", "a ~ b | ~ c", "a ~ b ~ | c", "a | b ~", "a ~ (b | c ~ d) ~ e | f", "(a ~ b) ~ (c ~ d)", "(a | b) | (c | d)", "a ~ (b ~ c)", "a | (b | c)",
             "&a ~ !b | &c ~ d", "a ~ &b ~ c", "a | !b | c", "!a | b ~ !c", "&(a ~ b) ~ c", "#t = a ~ #u = b | #v = c", "a? ~ b* | c+ ~ d{2}", "a ~ b? | c",
             "a ~ PUSH(b | c ~ d) ~ e", "PUSH(a ~ b) | PUSH(c | d)", "a ~ b ~ c ~ d ~ e | f | g | h ~ i ~ j", "a ~ b | c | d ~ e | f ~ g ~ h | i",
             "a" + " ~ a" * 500 + " ~ }", "a" + " | a" * 500 + " | ~ c", "a" + " | a ~ a" * 700 + " |", "(" * 40 + "a ~ b | c" + ")" * 40 + " ~ d | e"]:
    E(R(body))
EDGES[:] = list(dict.fromkeys(EDGES))
