"""./check <ID> --replay <file>: re-run one recorded failing input against /repo's current tree.

Exit 1 (and a VIOLATION line naming the same file) when the failure is still there, exit 0 when the
input now passes. A replay written for a broken proof or a broken correspondence without a failing
input ("no-failing-input-found") re-checks the named obligations and re-runs the recorded
disagreements."""

from __future__ import annotations

import json
import sys

import common

PARSE_JUDGES = {
    "C01": ["C01"], "C02": ["C02"], "C03": ["C03"], "C04": ["C04"], "C05": ["C05", "C07"], "C06": ["C06"],
    "C07": ["C07"], "C13": ["C13"], "C16": ["C16"],
}


def _parse_case(prop: str, r: dict) -> tuple[bool, list[str]]:
    import engine
    case = dict(r["case"])
    case["inputs"] = [r["text"]]
    case["rules"] = [r["rule"]]
    case["starts"] = "all"
    agg = engine.run_cases([case], PARSE_JUDGES.get(prop, ["SPEC"]) + ["TIE"], {}, nproc=1)
    out = []
    bad = False
    for v in agg["viol"]:
        if v.get("text") == r["text"] and v.get("k") == r.get("k", v.get("k")):
            bad = True
            out.append(f"{v['judge']}: {v['what']}  results={json.dumps(v.get('results'), ensure_ascii=False)}")
    for f in agg["fatal"]:
        bad = True
        out.append("fatal: " + str(f)[:500])
    return bad, out


def _c09(r: dict) -> tuple[bool, list[str]]:
    import c09
    bad = c09.replay_one(r) if hasattr(c09, "replay_one") else None
    if bad is None:
        return _rerun("C09")
    return bool(bad), [str(bad)] if bad else []


def _c14(prop: str, r: dict) -> tuple[bool, list[str]]:
    import c14
    c14._init()
    if "index" in r:
        _n, bad = c14.ec_chunk([(r["text"], r["index"])])
    else:
        _n, bad = c14.chunk([r["text"]])
    return bool(bad), [json.dumps(b, ensure_ascii=False) for b in bad]


def _c10(prop: str, r: dict) -> tuple[bool, list[str]]:
    import c10
    if hasattr(c10, "replay_text"):
        bad = c10.replay_text(prop, r["text"])
        return bool(bad), [json.dumps(b, ensure_ascii=False)[:800] for b in bad]
    return _rerun(prop)


def _c18(r: dict) -> tuple[bool, list[str]]:
    import c18
    if hasattr(c18, "replay_one"):
        bad = c18.replay_one(r)
        return bool(bad), [json.dumps(b, ensure_ascii=False)[:800] for b in bad]
    return _rerun("C18")


def _c17(r: dict) -> tuple[bool, list[str]]:
    import c17
    if hasattr(c17, "replay_one"):
        bad = c17.replay_one(r)
        return bool(bad), [json.dumps(b, ensure_ascii=False)[:800] for b in bad]
    return _rerun("C17")


def _c08(r: dict) -> tuple[bool, list[str]]:
    import c08
    if hasattr(c08, "replay_one"):
        bad = c08.replay_one(r)
        return bool(bad), [json.dumps(b, ensure_ascii=False)[:800] for b in bad]
    return _rerun("C08")


def _rerun(prop: str) -> tuple[bool, list[str]]:
    """All generators are seeded and deterministic: the quick check revisits the recorded input."""
    import checks
    res = checks.CHECKS[prop]("quick", 1)
    bad = bool(res.violations or res.tie_breaks)
    return bad, [json.dumps(v.get("what", v), ensure_ascii=False)[:400] for v in (res.violations + res.tie_breaks)[:5]]


def run(prop: str, path: str) -> int:
    doc = json.load(open(path))
    b = common.build()
    if not b.ok:
        print("build failed: " + b.output[-1500:])
        print(f"VIOLATION property={prop} replay={path} no-failing-input-found")
        return 1
    lines: list[str] = []
    bad = False
    if doc.get("no_failing_input_found"):
        gate = common.gate_sources()
        ps = common.proof_status(prop)
        if gate or not ps["ok"]:
            bad = True
            lines.append("proof obligations still broken: " + "; ".join(gate + [ps.get("detail", "")]))
        for d in doc.get("disagreements", []):
            if "case" in d and "text" in d:
                b2, out = _parse_case(prop, d)
                bad = bad or b2
                lines += out
        if not doc.get("disagreements") and not bad:
            b2, out = _rerun(prop)
            bad = bad or b2
            lines += out
        for ln in lines:
            print(ln)
        if bad:
            print(f"VIOLATION property={prop} replay={path} no-failing-input-found")
            return 1
        print(f"OK property={prop} replay={path}: obligations discharged and the recorded disagreements are gone")
        return 0
    r = doc.get("replay", doc)
    try:
        if isinstance(r, dict) and "case" in r and "text" in r:
            bad, lines = _parse_case(prop, r)
        elif prop in ("C14", "C13") and isinstance(r, dict) and "text" in r:
            bad, lines = _c14(prop, r)
        elif prop == "C09":
            bad, lines = _c09(r)
        elif prop in ("C10", "C11"):
            bad, lines = _c10(prop, r)
        elif prop == "C18":
            bad, lines = _c18(r)
        elif prop == "C17":
            bad, lines = _c17(r)
        elif prop == "C08":
            bad, lines = _c08(r)
        else:
            bad, lines = _rerun(prop)
    except Exception:  # noqa: BLE001
        import traceback
        bad, lines = True, [traceback.format_exc()[-1500:]]
    print("replaying: " + json.dumps(doc.get("what", ""), ensure_ascii=False)[:300])
    for ln in lines:
        print(ln)
    if bad:
        print(f"VIOLATION property={prop} replay={path}")
        return 1
    print(f"OK property={prop} replay={path}: the recorded input passes on the current tree")
    return 0


if __name__ == "__main__":
    sys.exit(run(sys.argv[1], sys.argv[2]))
