"""C08: meaning-preserving grammar rewrites on the bundled grammars.

The grammar text is read by the reference reader (metaread), rewritten on the canonical AST at
a chosen site, printed back to pest text (so python-pest's front end is exercised on the
rewritten text), and original and rewritten grammars are run on corpus and mutated inputs in
the four execution modes."""

from __future__ import annotations

import multiprocessing as mp
import random

import g3
from common import NCPU, Driver

NEVER = '"\\u{10FFFD}\\u{10FFFD}"'
POSTFIX = {"opt": "?", "star": "*", "plus": "+"}

_meta = None


def _init():
    global _meta
    import metaread
    _meta = metaread.Meta(Driver())


# ------------------------------------------------------------------ printer

def esc(s: str, quote: str) -> str:
    out = []
    for ch in s:
        o = ord(ch)
        if ch == "\\":
            out.append("\\\\")
        elif ch == quote:
            out.append("\\" + quote)
        elif ch == "\n":
            out.append("\\n")
        elif ch == "\r":
            out.append("\\r")
        elif ch == "\t":
            out.append("\\t")
        elif o < 32 or o == 127 or 0xD800 <= o <= 0xDFFF:
            out.append("\\u{%04X}" % o)
        else:
            out.append(ch)
    return "".join(out)


def pr(e) -> str:
    """print a canonical expression; sequences inside choices need no parentheses"""
    h = e[0]
    if h == "alt":
        return " | ".join(pr(c) for c in e[1])
    if h == "seq":
        return " ~ ".join(pr_term(c) for c in e[1])
    return pr_term(e)


def pr_term(e) -> str:
    h = e[0]
    if h in ("alt", "seq"):
        raise ValueError("unparenthesised " + h)
    if h == "tag":
        return f"#{e[1]} = {pr_term(e[2])}"
    if h == "and":
        return "&" + pr_term_notag(e[1])
    if h == "not":
        return "!" + pr_term_notag(e[1])
    return pr_post(e)


def pr_term_notag(e) -> str:
    if e[0] == "tag":
        raise ValueError("tag under a prefix operator")
    return pr_term(e)


def pr_post(e) -> str:
    h = e[0]
    if h in POSTFIX:
        return pr_post_operand(e[1]) + POSTFIX[h]
    if h == "repn":
        return pr_post_operand(e[1]) + "{%d}" % e[2]
    if h == "repmin":
        return pr_post_operand(e[1]) + "{%d,}" % e[2]
    if h == "repmax":
        return pr_post_operand(e[1]) + "{,%d}" % e[2]
    if h == "repmm":
        return pr_post_operand(e[1]) + "{%d,%d}" % (e[2], e[3])
    return pr_primary(e)


def pr_post_operand(e) -> str:
    if e[0] in ("tag", "and", "not"):
        raise ValueError("prefix or tag under a postfix operator")
    return pr_post(e)


def pr_primary(e) -> str:
    h = e[0]
    if h == "grp":
        return "(" + pr(e[1]) + ")"
    if h == "ref":
        return e[1]
    if h == "str":
        return '"' + esc(e[1], '"') + '"'
    if h == "ci":
        return '^"' + esc(e[1], '"') + '"'
    if h == "rng":
        return "'" + esc(e[1], "'") + "'..'" + esc(e[2], "'") + "'"
    if h == "push":
        return "PUSH(" + pr(e[1]) + ")"
    if h == "pushlit":
        return 'PUSH_LITERAL("' + esc(e[1], '"') + '")'
    if h == "peeksl":
        return "PEEK[" + ("" if e[1] is None else str(e[1])) + ".." + ("" if e[2] is None else str(e[2])) + "]"
    if h in ("peek", "pop", "drop", "peekall", "popall"):
        return {"peek": "PEEK", "pop": "POP", "drop": "DROP", "peekall": "PEEK_ALL", "popall": "POP_ALL"}[h]
    raise ValueError("cannot print " + h)


def pr_grammar(rules) -> str:
    return "".join(f"{name} = {mod}{{ {pr(expr)} }}\n" for name, mod, _docs, expr in rules)


# ------------------------------------------------------------------ rewrites

def sites(e, path=()):
    """paths of all sub-expressions"""
    yield path
    h = e[0]
    if h in ("alt", "seq"):
        for i, c in enumerate(e[1]):
            yield from sites(c, path + (1, i))
    elif h == "tag":
        yield from sites(e[2], path + (2,))
    elif h in ("and", "not", "grp", "push", "opt", "star", "plus", "repn", "repmin", "repmax", "repmm"):
        yield from sites(e[1], path + (1,))


def get(e, path):
    for p in path:
        e = e[p]
    return e


def put(e, path, new):
    if not path:
        return new
    p = path[0]
    lst = list(e)
    lst[p] = put(e[p], path[1:], new)
    return tuple(lst)


def as_operand(e):
    """an expression usable where a single term without prefix/tag is needed"""
    return ("grp", e)


KINDS = ["paren", "reassoc", "extract", "dup", "never", "negnever",
         # two rewrites composed at one site: the abandoned first alternative lives in a fresh silent rule
         "never+extract", "negnever+extract", "dup+extract"]


def rewrite(rules, rng: random.Random, kind: str, counter: list[int]):
    """Returns (new rules, description) or None when the kind does not apply at the chosen site."""
    ri = rng.randrange(len(rules))
    name, mod, docs, expr = rules[ri]
    all_sites = list(sites(expr))
    path = rng.choice(all_sites)
    sub = get(expr, path)
    extra = []
    if sub[0] == "tag":
        return None  # rewrite the tagged term's operand instead (its own site)
    if kind == "paren":
        new = ("grp", sub)
    elif kind == "reassoc":
        if sub[0] not in ("seq", "alt") or len(sub[1]) < 3:
            return None
        items = list(sub[1])
        i = rng.randrange(0, len(items) - 1)
        j = rng.randrange(i + 2, len(items) + 1)
        if j - i >= len(items):
            return None
        inner = (sub[0], tuple(items[i:j]))
        new = (sub[0], tuple(items[:i] + [("grp", inner)] + items[j:]))
    elif kind == "extract":
        counter[0] += 1
        fresh = f"xtr_{counter[0]}"
        extra.append((fresh, "_", (), sub))
        new = ("ref", fresh)
    elif kind == "dup":
        new = ("grp", ("alt", (wrap_seq(sub), wrap_seq(sub))))
    elif kind == "never":
        new = ("grp", ("alt", (("seq", (term(sub), ("str", "\U0010FFFD\U0010FFFD"))), wrap_seq(sub))))
    elif kind == "negnever":
        new = ("grp", ("alt", (("seq", (("not", as_operand_if_needed(sub)), ("str", "\U0010FFFD\U0010FFFD"))),
                               wrap_seq(sub))))
    else:
        counter[0] += 1
        fresh = f"xtr_{counter[0]}"
        if kind == "never+extract":
            body = ("seq", (term(sub), ("str", "\U0010FFFD\U0010FFFD")))
            new = ("grp", ("alt", (("ref", fresh), wrap_seq(sub))))
        elif kind == "negnever+extract":
            body = ("seq", (("not", as_operand_if_needed(sub)), ("str", "\U0010FFFD\U0010FFFD")))
            new = ("grp", ("alt", (("ref", fresh), wrap_seq(sub))))
        else:  # dup+extract: (s | s) with s = _{ e }
            body = sub
            new = ("grp", ("alt", (("ref", fresh), ("ref", fresh))))
        extra.append((fresh, "_", (), body))
    new_expr = put(expr, path, new) if path else new
    new_rules = list(rules)
    new_rules[ri] = (name, mod, docs, new_expr)
    return new_rules + extra, f"{kind} in rule {name} at {path}: {pr_safe(sub)}"


def pr_safe(e):
    try:
        return pr(e)[:80]
    except ValueError:
        return str(e)[:80]


def term(e):
    """e as an element of a sequence"""
    return e if e[0] not in ("alt", "seq") else ("grp", e)


def wrap_seq(e):
    """e as an alternative of a choice"""
    return e if e[0] != "alt" else ("grp", e)


def as_operand_if_needed(e):
    return e if e[0] not in ("alt", "seq", "tag", "and", "not") else ("grp", e)


# ------------------------------------------------------------------ the check

def work(args):
    gpath, gtext, samples, seed, n_rewrites, combos = args
    import impl
    import metaread
    rng = random.Random(seed)
    out = {"evals": 0, "viol": [], "tie": [], "rewrites": 0, "skipped": 0, "kinds": {}}
    ref = _meta.read(gtext)
    if ref[0] != "OK":
        out["tie"].append({"what": f"reference reader rejects bundled grammar {gpath}: {ref}"})
        return out
    d = metaread.denote(ref[1], gtext)
    rules = [r for r in d[1]]
    # printer round trip
    printed = pr_grammar(rules)
    ref2 = _meta.read(printed)
    if ref2[0] != "OK" or [(r[0], r[1], r[3]) for r in metaread.denote(ref2[1], printed)[1]] != \
            [(r[0], r[1], r[3]) for r in rules]:
        out["tie"].append({"what": f"printer round trip fails for {gpath}"})
        return out
    base = impl.Built(printed)
    if base.err:
        out["tie"].append({"what": f"printed grammar {gpath} does not load: {base.err}"})
        return out
    base_res = {}
    for rule, text in samples:
        for mode in impl.MODES:
            base_res[(rule, text, mode)] = canon_outcome(base.run(mode, rule, text, 0, timeout=20.0))
            out["evals"] += 1
    counter = [0]
    for _ in range(n_rewrites):
        k = rng.randint(1, combos) if rng.random() < 0.3 else 1
        cur = rules
        descs = []
        for _j in range(k):
            kind = rng.choice(KINDS)
            try:
                r = rewrite(cur, rng, kind, counter)
            except (ValueError, IndexError):
                r = None
            if r is None:
                continue
            cur, desc = r
            descs.append(desc)
        if not descs:
            out["skipped"] += 1
            continue
        try:
            text2 = pr_grammar(cur)
        except ValueError:
            out["skipped"] += 1
            continue
        # the rewritten text must denote the rewritten AST (guards the printer)
        rr = _meta.read(text2)
        if rr[0] != "OK":
            out["skipped"] += 1
            continue
        out["rewrites"] += 1
        for dsc in descs:
            kd = dsc.split()[0]
            out["kinds"][kd] = out["kinds"].get(kd, 0) + 1
        b2 = impl.Built(text2)
        if b2.err:
            out["viol"].append({"what": f"rewritten grammar does not load: {b2.err}", "gpath": gpath,
                                "rewrites": descs, "grammar": text2})
            continue
        for rule, text in samples:
            for mode in impl.MODES:
                got = canon_outcome(b2.run(mode, rule, text, 0, timeout=20.0))
                out["evals"] += 1
                want = base_res[(rule, text, mode)]
                if got == ("EXC", "Timeout") and want != got:
                    # e -> ((e ~ NEVER) | e) makes every level of a recursive rule try its body twice: the
                    # rewritten grammar means the same and can need exponential time. The timer is not a verdict.
                    out["slow"] = out.get("slow", 0) + 1
                    break
                if got != want:
                    out["viol"].append({"what": f"mode {mode}: result changed by a meaning-preserving rewrite",
                                        "gpath": gpath, "rewrites": descs, "rule": rule, "text": text,
                                        "grammar": text2, "before": str(want)[:300], "after": str(got)[:300]})
                    break
            else:
                continue
            break
    return out


def canon_outcome(r):
    if r[0] == "OK":
        return ("OK", r[1])
    if r[0] == "FAIL":
        return ("FAIL",)
    return r[:2]


FIXED = [
    ('start = { nm ~ #tg = ("(" ~ arg ~ ("," ~ arg)* ~ ")") }\nnm = { "a"+ }\narg = { "b" }\n', "ab(),"),
    ('start = { #tg = (sr | nr ~ "b") ~ nr? }\nsr = _{ nr ~ "a" }\nnr = { "a" }\n', "ab"),
    ('start = { #tg = nr ~ (#tg = (nr) ~ "b")* }\nnr = { "a" }\nWHITESPACE = _{ " " }\n', "ab "),
    ('start = { PUSH(nr) ~ (PEEK ~ "b" | POP ~ nr) ~ DROP? }\nnr = { "a" }\n', "ab"),
    ('start = { at ~ (cp | nr)* }\nat = @{ "a" ~ nr? }\ncp = ${ "b" ~ nr }\nnr = { "a" }\nWHITESPACE = { " " }\n', "ab "),
    ('start = !{ #tg = (at) ~ "b"? }\nat = @{ nr ~ (#tg = nr)? }\nnr = { "a" }\n', "ab"),
]


def check(tier: str, seed: int):
    from checks import Result
    res = Result()
    n_rew = 400 if tier == "thorough" else 45
    work_items = []
    cases = g3.g3_cases(seed, mutations=2)
    by_g: dict[str, list] = {}
    texts = {}
    for c in cases:
        texts[c["gpath"]] = c["grammar"]
        for t in c["inputs"]:
            by_g.setdefault(c["gpath"], []).append((c["rules"][0], t))
    rng = random.Random(seed)
    # synthetic grammars where abandoned attempts could leak tags, stack entries or atomic depth
    import gen
    synth = [c for c in gen.g1_cases(seed, 400 if tier != "thorough" else 3000)
             if any(k in c["grammar"] for k in ("#tt", "PUSH", "= @", "= $", "= !"))]
    synth += gen.g2_cases(seed + 3, 40 if tier != "thorough" else 400, stack=True)
    rng.shuffle(synth)
    for i, c in enumerate(synth[: (60 if tier != "thorough" else 500)]):
        gp = f"synthetic-{i}"
        texts[gp] = c["grammar"]
        ins = list(gen.all_strings(c["alphabet"], 3))
        by_g[gp] = [(r, t) for r in c["rules"][:1] for t in ins]
    # fixed grammars in which an abandoned attempt has consumed a pending tag, pushed or popped stack entries or
    # changed the atomic depth before it fails: every site gets the NEVER-rewrites many times over
    for i, (gtext, alpha) in enumerate(FIXED):
        gp = f"synthetic-fixed-{i}"
        texts[gp] = gtext
        by_g[gp] = [("start", t) for t in gen.all_strings(alpha, 4)]
    for gpath, samples in sorted(by_g.items()):
        if len(samples) > 60:
            samples = rng.sample(samples, 60)
        # split the rewrites of one grammar over several workers
        parts = 4 if tier != "thorough" else 16
        if gpath.startswith("synthetic"):
            parts = 1
        for i in range(parts):
            if gpath.startswith("synthetic-fixed"):
                for j in range(4):
                    work_items.append((gpath, texts[gpath], samples, seed * 100 + 50 + j, 40, 2))
                continue
            work_items.append((gpath, texts[gpath], samples, seed * 100 + i,
                               max(1, (n_rew // 3 if gpath.startswith('synthetic') else n_rew) // parts), 4))
    ctx = mp.get_context("fork")
    kinds: dict[str, int] = {}
    rewrites = 0
    with ctx.Pool(NCPU, initializer=_init) as pool:
        for out in pool.imap_unordered(work, work_items):
            res.evaluations += out["evals"]
            rewrites += out["rewrites"]
            for k, v in out["kinds"].items():
                kinds[k] = kinds.get(k, 0) + v
            for t in out["tie"]:
                res.tie_breaks.append(t)
            for v in out["viol"]:
                res.violations.append({"what": v["what"], "replay": v})
    res.distinct_nontrivial = rewrites
    res.extra["distribution"] = {"rewritten_grammars": rewrites, "by_kind": kinds, "bundled_grammars": len(by_g)}
    res.rule = ("for every bundled grammar with harvested inputs: seeded rewrite sites (every sub-expression is a "
                "candidate) x six rewrite kinds (redundant parentheses, re-association, extraction into a fresh silent "
                "rule, (e | e), ((e ~ NEVER) | e), ((!e ~ NEVER) | e)) and combinations of up to 4; the rewritten AST "
                "is printed to pest text, re-read, and original vs rewritten grammar are compared on corpus and "
                "mutated inputs in the four execution modes (success/failure and tree). distinct_nontrivial = "
                "rewritten grammars actually run.")
    res.samples = ["dup in rule value at (1, 0)", "never in rule pair at ()", "extract in rule object at (1, 1)"]
    return res
