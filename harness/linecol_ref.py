"""Reference for error_context / line_col (mirrors coq/LineCol.v; used by the C13 judge)."""


def split_keep(text: str) -> list[str]:
    return text.splitlines(keepends=True)


def context(text: str, pos: int):
    """(line text without trailing whitespace, 1-based line number, 1-based column) of pos."""
    if not text:
        return ("", 1, 1)
    lines = split_keep(text)
    acc = 0
    for i, ln in enumerate(lines):
        if pos < acc + len(ln):
            return (ln.rstrip(), i + 1, pos - acc + 1)
        acc += len(ln)
    # pos == len(text): after a trailing line break it is the start of a new, empty line
    last = lines[-1]
    if last.endswith(("\n", "\r", "\x0b", "\x0c", "\x1c", "\x1d", "\x1e", "\x85", " ", " ")):
        return ("", len(lines) + 1, pos - acc + 1)
    return (last.rstrip(), len(lines), pos - (acc - len(last)) + 1)
