"""C09: Stack / SnapshottingInt / ParserState histories vs the extracted model and vs an
independent full-copy reference written here."""

from __future__ import annotations

import itertools
import multiprocessing as mp
import random

from common import NCPU, Driver

OPS = ["p", "o", "c", "s", "r", "d"]


def run_stack_impl(hist: tuple[str, ...]):
    """-> (rendered trace in the driver's format, problem vs full-copy reference or None)."""
    from pest.stack import Stack
    s = Stack()
    cur: list[int] = []
    saved: list[list[int]] = []
    n = 0
    out = []
    problem = None
    words = []
    for op in hist:
        raised = False
        try:
            if op == "p":
                n += 1
                words.append(f"p{n}")
                s.push(n)
                cur = cur + [n]
            else:
                words.append(op)
                if op == "o":
                    try:
                        s.pop()
                        if not cur:
                            problem = problem or "pop() on an empty stack did not raise IndexError"
                        cur = cur[:-1]
                    except IndexError:
                        raised = True
                        if cur:
                            problem = problem or "pop() raised IndexError on a non-empty stack"
                elif op == "c":
                    s.clear()
                    cur = []
                elif op == "s":
                    s.snapshot()
                    saved.append(cur)
                elif op == "r":
                    s.restore()
                    cur = saved.pop() if saved else []
                elif op == "d":
                    s.drop_snapshot()
                    if saved:
                        saved.pop()
        except Exception as e:  # noqa: BLE001
            return None, " ".join(words), f"{type(e).__name__} at step {len(words)}"
        vis = list(s)
        if problem is None:
            if vis != cur or len(s) != len(cur) or s.empty() != (not cur):
                problem = f"contents {vis} differ from the full-copy reference {cur} after step {len(words)}"
            else:
                try:
                    top = s.peek()
                    if not cur or top != cur[-1]:
                        problem = "peek() disagrees with the reference"
                except IndexError:
                    if cur:
                        problem = "peek() raised IndexError on a non-empty stack"
        out.append(("1:" if raised else "0:") + ",".join(map(str, vis)))
    return "|".join(out), " ".join(words), problem


_drv = None


def _init():
    global _drv
    _drv = Driver()


def stack_chunk(hists):
    bad = []
    n = 0
    lines = []
    impls = []
    for h in hists:
        tr, words, problem = run_stack_impl(h)
        n += 1
        if problem:
            bad.append({"kind": "property", "history": words, "what": problem})
            continue
        lines.append("S " + words)
        impls.append((tr, words))
    outs = _drv.ask_many(lines) if lines else []
    for (tr, words), m in zip(impls, outs):
        if tr != m:
            bad.append({"kind": "tie", "history": words, "impl": tr, "model": m})
    return n, bad


def all_histories(maxlen: int):
    for L in range(1, maxlen + 1):
        yield from itertools.product(OPS, repeat=L)


def chunks(it, size):
    buf = []
    for x in it:
        buf.append(x)
        if len(buf) >= size:
            yield buf
            buf = []
    if buf:
        yield buf


def random_histories(rng: random.Random, n: int, maxlen: int):
    for _ in range(n):
        L = rng.randint(8, maxlen)
        w = rng.choice([[3, 2, 1, 3, 2, 2], [2, 3, 1, 2, 3, 1], [4, 1, 0, 2, 1, 2]])
        yield tuple(rng.choices(OPS, weights=w, k=L))


# ------------------------------------------------------------------ SnapshottingInt / ParserState

def int_history(rng: random.Random, L: int):
    from pest.checkpoint_int import SnapshottingInt
    x = SnapshottingInt()
    val = 0
    saved: list[int] = []
    words = []
    out = []
    problem = None
    for _ in range(L):
        op = rng.choice("srdza")
        if op == "s":
            x.snapshot(); saved.append(val); words.append("s")
        elif op == "r":
            x.restore(); val = saved.pop() if saved else 0; words.append("r")
        elif op == "d":
            x.drop(); words.append("d")
            if saved:
                saved.pop()
        elif op == "z":
            x.zero(); val = 0; words.append("z")
        else:
            k = rng.randint(1, 3)
            x += k  # noqa: PLW2901
            val += k
            words.append(f"a{k}")
        if int(x) != val and problem is None:
            problem = f"value {int(x)} differs from the reference {val} after step {len(words)}"
        out.append(str(int(x)))
    return ",".join(out), " ".join(words), problem


def pstate_history(rng: random.Random, L: int):
    from pest.state import ParserState
    st = ParserState("x" * 50, 0, None)
    ref = {"pos": 0, "user": [], "rules": [], "depth": 0, "tags": []}
    saved: list[dict] = []
    words = []
    out = []
    problem = None
    ctr = 0
    for _ in range(L):
        cands = ["ck", "sp", "up", "rp", "di", "dz", "tp", "as", "az"]
        if saved:
            cands += ["ok", "rs", "ok", "rs"]
        if ref["user"]:
            cands += ["uo", "uc"]
        if ref["rules"]:
            cands.append("ro")
        if ref["tags"]:
            cands.append("to")
        op = rng.choice(cands)
        ctr += 1
        if op in ("as", "az"):
            # an atomic scope entered and left (Rule.parse: `with state.atomic_checkpoint(): depth += 1 / zero()`):
            # afterwards every component, and every enclosing checkpoint, is as before. Not a step of the model's
            # trace (the visible state does not change); checked against the full-copy reference only.
            with st.atomic_checkpoint():
                if op == "as":
                    st.atomic_depth += 1
                else:
                    st.atomic_depth.zero()
            view = (st.pos, [int(x) for x in st.user_stack], list(st.rule_stack), int(st.atomic_depth),
                    [int(x) for x in st.tag_stack])
            want = (ref["pos"], ref["user"], ref["rules"], ref["depth"], ref["tags"])
            if view != want and problem is None:
                problem = (f"state {view} differs from the full-copy reference {want} after an atomic scope "
                           f"following step {len(words)} ({' '.join(words[-12:])})")
            continue
        if op == "ck":
            st.checkpoint(); saved.append({k: (list(v) if isinstance(v, list) else v) for k, v in ref.items()})
            words.append("ck")
        elif op == "ok":
            st.ok(); saved.pop(); words.append("ok")
        elif op == "rs":
            st.restore(); ref = saved.pop(); words.append("rs")
        elif op == "sp":
            p = rng.randint(0, 40); st.pos = p; ref["pos"] = p; words.append(f"sp{p}")
        elif op == "up":
            st.push(str(ctr)); ref["user"] = ref["user"] + [ctr]; words.append(f"up{ctr}")
        elif op == "uo":
            st.user_stack.pop(); ref["user"] = ref["user"][:-1]; words.append("uo")
        elif op == "uc":
            st.user_stack.clear(); ref["user"] = []; words.append("uc")
        elif op == "rp":
            st.rule_stack.push(ctr); ref["rules"] = ref["rules"] + [ctr]; words.append(f"rp{ctr}")
        elif op == "ro":
            st.rule_stack.pop(); ref["rules"] = ref["rules"][:-1]; words.append("ro")
        elif op == "di":
            st.atomic_depth += 1; ref["depth"] += 1; words.append("di")
        elif op == "dz":
            st.atomic_depth.zero(); ref["depth"] = 0; words.append("dz")
        elif op == "tp":
            st.tag_stack.append(str(ctr)); ref["tags"] = ref["tags"] + [ctr]; words.append(f"tp{ctr}")
        elif op == "to":
            st.tag_stack.pop(); ref["tags"] = ref["tags"][:-1]; words.append("to")
        view = (st.pos, [int(x) for x in st.user_stack], list(st.rule_stack), int(st.atomic_depth),
                [int(x) for x in st.tag_stack])
        want = (ref["pos"], ref["user"], ref["rules"], ref["depth"], ref["tags"])
        if view != want and problem is None:
            problem = f"state {view} differs from the full-copy reference {want} after step {len(words)}"
        out.append(f"{view[0]};{','.join(map(str, view[1]))};{','.join(map(str, view[2]))};{view[3]};"
                   f"{','.join(map(str, view[4]))}")
    return "|".join(out), " ".join(words), problem


def other_chunk(args):
    seed, n = args
    rng = random.Random(seed)
    bad = []
    lines = []
    impls = []
    for i in range(n):
        st_before = rng.getstate()
        try:
            if i % 2:
                tr, words, problem = int_history(rng, rng.randint(3, 30))
                cmd = "I "
            else:
                tr, words, problem = pstate_history(rng, rng.randint(3, 40))
                cmd = "T "
        except Exception as e:  # noqa: BLE001
            bad.append({"kind": "property", "history": f"seeded history #{i} of chunk seed {seed}",
                        "what": f"{type(e).__name__} raised by a checkpoint/ok/restore history that the "
                                f"full-copy reference completes: {e}"})
            continue
        if problem:
            bad.append({"kind": "property", "history": cmd + words, "what": problem})
            continue
        lines.append(cmd + words)
        impls.append((tr, cmd + words))
    outs = _drv.ask_many(lines) if lines else []
    for (tr, words), m in zip(impls, outs):
        if tr != m:
            bad.append({"kind": "tie", "history": words, "impl": tr, "model": m})
    return n, bad


def check(tier: str, seed: int):
    from checks import Result
    res = Result()
    maxlen = 9 if tier == "thorough" else 8
    nrand = 200000 if tier == "thorough" else 20000
    nother = 100000 if tier == "thorough" else 12000
    rng = random.Random(seed)
    ctx = mp.get_context("fork")
    total = 0
    nontrivial = 0
    with ctx.Pool(NCPU, initializer=_init) as pool:
        work = itertools.chain(chunks(all_histories(maxlen), 4000),
                               chunks(random_histories(rng, nrand, 60), 2000))
        for n, bad in pool.imap_unordered(stack_chunk, work):
            total += n
            for b in bad:
                _add(res, b)
        for n, bad in pool.imap_unordered(other_chunk, [(seed * 1000 + i, nother // 32) for i in range(32)]):
            total += n
            for b in bad:
                _add(res, b)
    res.evaluations = total
    # distinct histories that contain at least one snapshot and one pop/clear (the delta encoding
    # is exercised only by those): counted exactly for the exhaustive part
    res.distinct_nontrivial = sum(
        6 ** L - 2 * 5 ** L + 4 ** L for L in range(1, maxlen + 1))  # inclusion-exclusion, see rule
    res.exhaustive = True
    res.rule = (f"ALL histories over push/pop/clear/snapshot/restore/drop up to length {maxlen} with "
                f"distinguishable items, plus {nrand} seeded random histories of length 8..60, plus {nother} seeded "
                "random SnapshottingInt and ParserState checkpoint/ok/restore histories; after every step the "
                "implementation's visible contents (list, len, empty, peek, IndexError) are compared with the "
                "extracted Coq model and with an independent full-copy reference. Non-trivial = exhaustive "
                "histories containing at least one snapshot and at least one pop (counted by inclusion-exclusion "
                "over the op alphabet: 6^L - 2*5^L + 4^L per length L).")
    res.samples = ["p1 s s o d r", "p1 p2 s o o d r", "p1 s c r", "T up1 ck ck uo ok rs"]
    return res


def _add(res, b):
    if b["kind"] == "tie":
        res.tie_breaks.append(b)
    else:
        res.violations.append({"what": b["what"], "replay": b})
