"""C10 / C11: the grammar front end vs the reference reader (extracted semantics running pest's
meta-grammar + denote), on generated grammar texts, bundled grammars and mutations."""

from __future__ import annotations

import glob
import multiprocessing as mp
import os
import random
import re
import signal
import sys

from common import NCPU, REPO, Driver

_meta = None


def _init():
    global _meta
    import metaread
    _meta = metaread.Meta(Driver())


# ------------------------------------------------------------------ grammar text generator

class TextGen:
    """Random grammar ASTs printed with every syntactic form and layout variation of meta.pest."""

    IDENTS = ["a", "b1", "_x", "rule_2", "POPULATE", "PEEKABOO", "DROPS", "POP_ALLY", "PEEK_ALLx", "Eoi",
              "ANYthing", "x_PUSH", "ASCII_DIGITS", "A", "z9"]
    BUILTINS = ["ANY", "SOI", "EOI", "ASCII_DIGIT", "ASCII_ALPHA", "NEWLINE", "PEEK", "POP", "DROP", "PEEK_ALL",
                "POP_ALL", "LETTER"]

    def __init__(self, rng: random.Random) -> None:
        self.rng = rng

    def ws(self, required: bool = False) -> str:
        r = self.rng.random()
        if r < 0.55:
            return " " if required or r < 0.4 else ""
        if r < 0.7:
            return self.rng.choice(["  ", "\n", "\t", " \n  ", "\r\n"])
        if r < 0.85:
            return self.rng.choice([" /* c */ ", "/* a /* nested */ b */", " // line\n", "/**/", "//x\n"])
        return self.rng.choice(["\n    ", " "])

    def string(self) -> str:
        rng = self.rng
        parts = []
        for _ in range(rng.randint(0, 4)):
            k = rng.random()
            if k < 0.5:
                parts.append(rng.choice(["a", "b", "ab", " ", "x y", "'", "#", "{", "}", "~", "|", "é", "中", "//", "/*"]))
            elif k < 0.8:
                parts.append(rng.choice(["\\n", "\\r", "\\t", "\\\\", "\\\"", "\\'", "\\0"]))
            elif k < 0.9:
                parts.append("\\x%02x" % rng.randrange(256))
            else:
                cp = rng.choice([0x41, 0xE9, 0x4E2D, 0x1F600, 0x10FFFF, 0x7, 0x0])
                width = rng.choice([w for w in (2, 3, 4, 5, 6) if len("%X" % cp) <= w])
                parts.append("\\u{%0*X}" % (width, cp))
        return '"' + "".join(parts) + '"'

    def char(self) -> str:
        rng = self.rng
        k = rng.random()
        if k < 0.04:
            # a lone backslash (invalid in pest), the quote itself, a double quote, an escaped backslash
            q, bs = chr(39), chr(92)
            return rng.choice([q + bs + q, q + q + q, q + chr(34) + q, q + bs + bs + q])
        if k < 0.5:
            return "'" + rng.choice("abzAZ09 #\"{~é中") + "'"
        if k < 0.75:
            return "'" + rng.choice(["\\n", "\\r", "\\t", "\\\\", "\\'", "\\\"", "\\0"]) + "'"
        if k < 0.85:
            return "'\\x%02X'" % rng.randrange(256)
        cp = rng.choice([0x41, 0xE9, 0x4E2D, 0x1F600, 0x10FFFF])
        width = rng.choice([w for w in (2, 3, 4, 5, 6) if len("%X" % cp) <= w])
        return "'\\u{%0*x}'" % (width, cp)

    def terminal(self) -> str:
        rng = self.rng
        k = rng.random()
        if k < 0.25:
            return self.string()
        if k < 0.33:
            return "^" + self.string()
        if k < 0.45:
            return self.char() + self.ws() + ".." + self.ws() + self.char()
        if k < 0.65:
            return rng.choice(self.rule_names + self.IDENTS[:3])
        if k < 0.8:
            return rng.choice(self.BUILTINS)
        if k < 0.86:
            return "PUSH" + self.ws() + "(" + self.ws() + self.expr(1) + self.ws() + ")"
        if k < 0.9:
            return "PUSH_LITERAL" + self.ws() + "(" + self.ws() + self.string() + self.ws() + ")"
        a = rng.choice(["", "0", "1", "-1", "-2", "10"])
        b = rng.choice(["", "0", "1", "-1", "3"])
        return "PEEK[" + self.ws() + a + self.ws() + ".." + self.ws() + b + self.ws() + "]"

    def term(self, depth: int) -> str:
        rng = self.rng
        out = ""
        if rng.random() < 0.12:
            out += "#" + rng.choice(["t", "tag", "_t1", "T_2", "ab"]) + self.ws() + "=" + self.ws()
        for _ in range(rng.choice([0, 0, 0, 1, 1, 2])):
            out += rng.choice("&!") + self.ws()
        if depth > 0 and rng.random() < 0.35:
            out += "(" + self.ws() + self.expr(depth - 1) + self.ws() + ")"
        else:
            out += self.terminal()
        for _ in range(rng.choice([0, 0, 0, 1, 1, 2])):
            k = rng.random()
            if k < 0.6:
                out += rng.choice("?*+")
            else:
                sp = self.ws
                form = rng.choice(["{%s%d%s}", "{%s%d%s,%s}", "{%s,%s%d%s}", "{%s%d%s,%s%d%s}"])
                n, m = rng.randint(0, 3), rng.randint(1, 4)
                if form.count("%d") == 2:
                    out += form % (sp(), n, sp(), sp(), n + m, sp())
                elif form == "{%s%d%s,%s}":
                    out += form % (sp(), n, sp(), sp())
                elif form == "{%s,%s%d%s}":
                    out += form % (sp(), sp(), m, sp())
                else:
                    out += form % (sp(), m, sp())
        return out

    def expr(self, depth: int) -> str:
        rng = self.rng
        out = ""
        if rng.random() < 0.08:
            out += "|" + self.ws()
        n = rng.choice([1, 1, 2, 2, 3, 4])
        for i in range(n):
            if i:
                out += self.ws() + rng.choice(["~", "~", "|"]) + self.ws()
            out += self.term(depth)
        return out

    def grammar(self) -> str:
        rng = self.rng
        n = rng.randint(0, 4) if rng.random() < 0.1 else rng.randint(1, 4)
        self.rule_names = [rng.choice(self.IDENTS) for _ in range(max(n, 1))]
        out = self.ws() if rng.random() < 0.3 else ""
        for _ in range(rng.choice([0, 0, 0, 1, 2])):
            out += "//!" + rng.choice(["", " ", "\t"]) + rng.choice(["Grammar doc", "", "x  y", " two spaces"]) + "\n"
        for i in range(n):
            for _ in range(rng.choice([0, 0, 1, 2])):
                out += "///" + rng.choice(["", " ", "\t"]) + rng.choice(["Rule doc", "", "a /// b"]) + "\n"
            out += self.rule_names[i] + self.ws() + "=" + self.ws() + rng.choice(["", "", "_", "@", "$", "!"]) + self.ws()
            out += "{" + self.ws() + self.expr(rng.randint(0, 2)) + self.ws() + "}" + self.ws(True)
        if rng.random() < 0.05:
            out += "/// trailing doc\n"
        return out


def mutate(rng: random.Random, text: str) -> str:
    alphabet = "ab _=~|*+?!&(){}[]\"'^#.,-0123\\/\n@$xuPOEK"
    if not text:
        return rng.choice(alphabet)
    # malformed escapes: damage a digit of a \\x / \\u{...} escape when there is one
    esc = [m.start() for m in __import__("re").finditer(r"\\[xu]", text)]
    if esc and rng.random() < 0.25:
        j = rng.choice(esc) + rng.randint(2, 4)
        if j < len(text):
            return text[:j] + rng.choice("-+ _gG{}'\"") + text[j + 1:]
    i = rng.randrange(len(text))
    op = rng.randrange(6)
    if op == 0:
        return text[:i] + text[i + 1:]
    if op == 1:
        return text[:i] + rng.choice(alphabet) + text[i + 1:]
    if op == 2:
        return text[:i] + rng.choice(alphabet) + text[i:]
    if op == 3:
        return text[:i]                      # truncation
    if op == 4:
        j = min(len(text), i + rng.randint(1, 6))
        return text[:i] + text[j:]           # delete a token-sized chunk
    return text[:i] + text[i] + text[i:]     # duplicate a character


def soup(rng: random.Random) -> str:
    lex = ["a", "=", "{", "}", "(", ")", "~", "|", "*", "+", "?", "!", "&", "\"x\"", "'a'", "..", "^", "#t", "PUSH",
           "PEEK", "[", "]", "1", ",", "_", "@", "//", "/*", "*/", "\\", "\"", "'", "\\u{", "\\x", "///", "//!", " ", "\n",
           "POP", "-", "'a'..'b'", "{2}"]
    return "".join(rng.choice(lex) + rng.choice(["", " "]) for _ in range(rng.randint(1, 9)))


def bundled_texts() -> list[str]:
    out = []
    for f in sorted(glob.glob(os.path.join(REPO, "tests/grammars/*.pest")) +
                    glob.glob(os.path.join(REPO, "examples/*/*.pest"))):
        out.append(open(f, encoding="utf-8").read())
    return out


class _Timeout(Exception):
    pass


def _alarm(_s, _f):
    raise _Timeout()


_BIG_COUNT = re.compile(r"\{[^{}]*?(\d{6,})[^{}]*?\}")


def has_big_count(text: str) -> bool:
    """A repetition count of six or more digits: unrolling it (optimizer, or RepeatExact.parse) allocates that many
    nodes inside C code, which no timer interrupts. Such texts are not loaded with the optimizer in-process; the
    behaviour is probed once per run in a memory-limited subprocess (huge_count_probe)."""
    return _BIG_COUNT.search(text) is not None


def huge_count_probe() -> str | None:
    """Known finding C11:unroll-huge-count — is it still there? Runs in a subprocess limited to 1.5 GB / 30 s."""
    import subprocess
    code = ("import resource,sys\n"
            "resource.setrlimit(resource.RLIMIT_AS,(1500*1024*1024,1500*1024*1024))\n"
            "from pest import Parser\n"
            "from pest.grammar.exceptions import PestGrammarError\n"
            "try:\n"
            "    Parser.from_grammar('a = { \"x\"{99999999} }')\n"
            "    print('LOADED')\n"
            "except PestGrammarError:\n"
            "    print('GERR')\n"
            "except BaseException as e:\n"
            "    print('EXC', type(e).__name__)\n")
    try:
        r = subprocess.run([sys.executable, "-c", code], capture_output=True, text=True, timeout=30,
                           env=dict(os.environ))
        out = (r.stdout or "").strip() or f"DIED rc={r.returncode}"
    except subprocess.TimeoutExpired:
        out = "TIMEOUT"
    if out in ("LOADED", "GERR"):
        return None
    return out


def load(text: str, optimizer: bool):
    """-> ('OK', parser) | ('GERR', exc) | ('EXC', type name)"""
    from pest import Parser
    from pest.grammar.exceptions import PestGrammarError
    from pest.grammar.optimizer import DEFAULT_OPTIMIZER_PASSES, Optimizer
    signal.signal(signal.SIGALRM, _alarm)
    signal.setitimer(signal.ITIMER_REAL, 20.0)
    try:
        opt = Optimizer(list(DEFAULT_OPTIMIZER_PASSES)) if optimizer else None
        p = Parser.from_grammar(text, optimizer=opt)
        return ("OK", p)
    except PestGrammarError as e:
        return ("GERR", e)
    except _Timeout:
        return ("EXC", "Timeout")
    except RecursionError:
        return ("EXC", "RecursionError")
    except Exception as e:  # noqa: BLE001
        return ("EXC", type(e).__name__)
    finally:
        signal.setitimer(signal.ITIMER_REAL, 0)


def signature(text: str, what: str) -> str:
    return what


def judge_text(text: str, want_c10: bool, want_c11: bool):
    """Returns list of (prop, signature, what)."""
    import metaread
    out = []
    r0 = load(text, False)
    r1 = load(text, True) if (want_c11 and not has_big_count(text)) else None
    # ---- C11: totality and renderable error
    if want_c11:
        for label, r in (("optimizer=None", r0), ("default optimizer", r1)):
            if r is None:
                continue
            if r[0] == "EXC":
                out.append(("C11", f"exc:{r[1]}", f"from_grammar ({label}) raised {r[1]}"))
            elif r[0] == "GERR":
                e = r[1]
                try:
                    msg = str(e)
                except Exception as ex:  # noqa: BLE001
                    out.append(("C11", f"render:{type(ex).__name__}", f"str(PestGrammarError) raised {type(ex).__name__}: {ex}"))
                    continue
                tok = getattr(e, "token", None)
                if tok is not None:
                    if not (0 <= tok.start <= len(text)):
                        out.append(("C11", "pos-range", f"error token start {tok.start} outside the text (len {len(text)})"))
                    else:
                        line = text.count("\n", 0, tok.start) + 1
                        nlines = text.count("\n") + 1
                        if f" {line}:" not in msg.split("\n")[1] if "\n" in msg else False:
                            pass
                        # the reported line must exist
                        import re as _re
                        m = _re.search(r"-> (\d+):(\d+)", msg)
                        if m:
                            ln, col = int(m.group(1)), int(m.group(2))
                            lines = text.splitlines(keepends=True) or [""]
                            if not (1 <= ln <= max(len(lines), 1) + 1):
                                out.append(("C11", "line-missing", f"message points at line {ln} of {len(lines)}"))
                            elif ln <= len(lines) and col > len(lines[ln - 1]):
                                out.append(("C11", "col-missing", f"message points at column {col} past the end of line {ln}"))
    if not want_c10:
        return out
    # ---- C10: accept set and structure vs the reference reader
    ref = _meta.read(text)
    if ref[0] not in ("OK", "FAIL"):
        return out  # out of fuel: no verdict
    if ref[0] == "OK":
        try:
            d = metaread.canon_ref(metaread.denote(ref[1], text))
        except (metaread.DenoteError, ValueError, IndexError):
            d = None  # syntactically valid but not denotable (e.g. code point out of range)
        if d is None:
            if r0[0] == "OK":
                out.append(("C10", "accepts-undenotable", "accepts a grammar whose literals denote no code point"))
            return out
        if r0[0] != "OK":
            out.append(("C10", "reject-valid:" + classify(text), "rejects a grammar that pest's meta-grammar accepts"
                        + (f" ({r0[1].args[0] if r0[0] == 'GERR' and r0[1].args else r0[1]})")))
            return out
        try:
            got = metaread.canon_impl(r0[1])
        except metaread.DenoteError as e:
            out.append(("C10", "structure", str(e)))
            return out
        if dict((x[0], x) for x in got[1]) != dict((x[0], x) for x in d[1]):
            gd = dict((x[0], x) for x in got[1])
            for x in d[1]:
                if gd.get(x[0]) != x:
                    out.append(("C10", "structure:" + diff_kind(x, gd.get(x[0])),
                                f"rule {x[0]}: built {gd.get(x[0])!r}, the text denotes {x!r}"))
                    break
            else:
                out.append(("C10", "structure:extra-rule", "front end built rules the text does not define"))
        elif tuple(got[0]) != tuple(d[0]):
            out.append(("C10", "structure:grammar-doc", f"grammar docs {got[0]!r}, the text denotes {d[0]!r}"))
    else:
        if r0[0] == "OK":
            out.append(("C10", "accept-invalid:" + classify_invalid(text, ref[1]),
                        f"accepts a text pest's meta-grammar rejects (reference fails at offset {ref[1]})"))
    return out


def diff_kind(want, got) -> str:
    if got is None:
        return "missing-rule"
    if want[1] != got[1]:
        return "modifier"
    if want[2] != got[2]:
        return "rule-doc"
    return "expression"


def classify(text: str) -> str:
    """coarse construct classes of a valid-but-rejected text (for known-finding signatures)"""
    import re
    ks = []
    if re.search(r"'\\[nrt0\"]'", text):
        ks.append("char-escape")
    if re.search(r"\\u\{[0-9a-fA-F]{3}\}|\\u\{[0-9a-fA-F]{5}\}", text):
        ks.append("u-odd-digits")
    if "\\0" in text or "\\'" in text:
        ks.append("escape-0-or-quote")
    if re.search(r"[?*+}]\s*[?*+{]", text):
        ks.append("stacked-postfix")
    if re.search(r"&\s*[!&]|!\s*&", text):
        ks.append("prefix-chain")
    if re.search(r"#[_a-zA-Z]\s*=", text):
        ks.append("short-tag")
    if re.search(r"\b(PUSH_LITERAL|PUSH|PEEK_ALL|POP_ALL|POP|DROP|PEEK)[A-Za-z0-9_]", text):
        ks.append("keyword-prefixed-identifier")
    if re.search(r"PEEK\s+\[", text):
        ks.append("peek-space")
    if re.search(r"\^\s+\"", text):
        ks.append("ci-space")
    if text.rstrip().endswith("doc") or re.search(r"///[^\n]*\n?\s*$", text):
        ks.append("trailing-doc")
    if not re.search(r"=", text):
        ks.append("no-rules")
    return "+".join(ks) or "other"


def classify_invalid(text: str, pos: int) -> str:
    import re
    ks = []
    if re.search(r"'[^']*'\s*(?!\.\.)..\s*'", text) and ".." not in text[max(0, pos - 3):pos + 3]:
        ks.append("range-op")
    if "\r" in text.replace("\r\n", ""):
        ks.append("lone-cr")
    if re.search(r"-0", text):
        ks.append("minus-zero")
    if re.search(r"#[_a-zA-Z][_a-zA-Z0-9]*[\[\]\\^`]", text):
        ks.append("tag-chars")
    if re.search(r"\bPUSH[A-Za-z0-9_]", text):
        ks.append("push-identifier")
    return "+".join(ks) or "other"


def chunk(args):
    texts, want10, want11 = args
    out = []
    for t in texts:
        try:
            vs = judge_text(t, want10, want11)
        except RecursionError:
            vs = []    # nesting beyond the harness's own recursion budget: no verdict on structure
        except Exception as e:  # noqa: BLE001
            import traceback
            vs = [("HARNESS", "crash", traceback.format_exc()[-800:])]
        for prop, sig, what in vs:
            out.append({"prop": prop, "signature": sig, "what": what, "text": t})
    return len(texts), out, (_meta.problem if _meta else None)


def texts_for(tier: str, seed: int, prop: str) -> tuple[list[str], dict]:
    rng = random.Random(seed)
    n_gen = 6000 if tier == "thorough" else 1200
    gen = TextGen(rng)
    valid = [gen.grammar() for _ in range(n_gen)]
    bundled = bundled_texts()
    muts = []
    for t in valid[: n_gen // 2]:
        muts.append(mutate(rng, t))
    for t in bundled:
        for _ in range(40 if tier == "thorough" else 8):
            muts.append(mutate(rng, t))
    soups = [soup(rng) for _ in range(n_gen // 2)]
    edge = ["", " ", "\n", "// only a comment", "/* unterminated", "a", "a =", "a = {", "a = { \"", "a = { \"x", "a = { 'a'",
            "a = { 'a'..", "a = { \"\\", "a = { \"\\u", "a = { \"\\u{", "a = { \"\\x1", "a = { \"\\u{110000}\" }",
            "a = { PEEK[", "a = { PEEK[1..", "a = { b{", "a = { b{1,", "a = { (", "a = { #t", "a = { #tt =", "a = { ^",
            "a = { 'z'..'a' }", "a = { b } /// doc", "//! doc only", "a = { " + "(" * 200 + "b" + ")" * 200 + " }",
            "a = { b ~ }", "a = { | }", "a = { undefined_rule }", "a = { PUSH( }", "a = { PUSH_LITERAL(b) }",
            "a = { \"\\q\" }", "a = { '\\q'..'a' }", "a = { 'ab'..'c' }", "a = { ''..'c' }", "a = _ { b }"]
    edge += ['a = { (!b ~ ANY)* }\nb = { b | "x" }\n', 'a = @{ (!b ~ ANY)* }\nb = { c | "x" }\nc = { b }\n',
             'a = { "x"' + "?" * 5000 + " }", 'a = { "x"{' + "1" * 5000 + "} }", "a = { PEEK[" + "1" * 5000 + "..] }",
             'a = { "x"{,' + "9" * 4400 + "} }", "a = { " + "!" * 4000 + '"x" }', "a = { " + "&" * 4000 + '"x" }',
             'a = { "\\u{-041}" }', 'a = { "\\x-1" }', 'a = { "\\u{+41}" }', 'a = { "\\u{ 41}" }', 'a = { "\\u{4_1}" }',
             'a = { "\\x 1" }', 'a = { ^"\\u{-e9}" }']
    q, bs = chr(39), chr(92)
    edge += ["a = { " + q + bs + q + ".." + q + "a" + q + " }", "a = { " + q + "a" + q + ".." + q + bs + q + " }",
             "a = { " + q * 3 + ".." + q + "a" + q + " }", "a = { " + q + bs + q + q + ".." + q + "a" + q + " }",
             "a = { " + chr(34) + bs + chr(34) + " }", "a = { " + q + bs + bs + q + ".." + q + "z" + q + " }"]
    # nesting beyond CPython's recursion limit, in the scanner (groups, PUSH, tagged groups, unclosed) and in the
    # grammar parser (prefix chains, long flat sequences) and in the optimizer (postfix chains): a grammar error, never
    # a RecursionError
    edge += ["a = { " + "(" * 3000 + "b" + ")" * 3000 + " }", "a = { " + "(" * 700 + "b",
             "a = { " + "PUSH(" * 500 + '"b"' + ")" * 500 + " }", "a = { " + "#t = (" * 600 + "b" + ")" * 600 + " }",
             "a = { " + "!" * 1500 + "b }", "a = { " + " ~ ".join(["b"] * 2000) + " }\nb = { \"x\" }",
             "a = { b" + "?" * 3000 + " }\nb = { \"x\" }"]
    if tier == "thorough":
        # every truncation of the bundled grammars
        for t in bundled:
            step = max(1, len(t) // 400)
            edge += [t[:i] for i in range(0, len(t), step)]
    else:
        for t in bundled:
            step = max(1, len(t) // 40)
            edge += [t[:i] for i in range(0, len(t), step)]
    from front_edge_cases import EDGES
    edge += list(EDGES)       # the edge texts the front-end model was developed against (lone surrogates in escapes, ...)
    allt = bundled + valid + muts + soups + edge
    dist = {"generated_valid_candidates": len(valid), "bundled": len(bundled), "mutations": len(muts),
            "token_soups": len(soups), "edge_and_truncations": len(edge)}
    return allt, dist


def check(prop: str, tier: str, seed: int):
    from checks import Result
    res = Result()
    texts, dist = texts_for(tier, seed, prop)
    want10 = prop == "C10"
    want11 = prop == "C11"
    ctx = mp.get_context("fork")
    work = [(texts[i:i + 40], want10, want11) for i in range(0, len(texts), 40)]
    n_total = 0
    meta_problem = None
    with ctx.Pool(NCPU, initializer=_init) as pool:
        for n, out, mp_ in pool.imap_unordered(chunk, work):
            n_total += n
            meta_problem = meta_problem or mp_
            for v in out:
                if v["prop"] == "HARNESS":
                    res.tie_breaks.append(v)
                elif v["prop"] == prop:
                    res.violations.append({"what": v["what"], "signature": f"{prop}:{v['signature']}",
                                           "replay": {"text": v["text"], "what": v["what"], "signature": v["signature"]}})
    if meta_problem:
        res.tie_breaks.append({"what": meta_problem})
    if want11:
        pr = huge_count_probe()
        if pr is not None:
            res.violations.append({
                "what": "Parser.from_grammar('a = { \"x\"{99999999} }') with the default optimizer does not return: the "
                        f"unroll pass materialises the repetition ({pr} in a subprocess limited to 1.5 GB / 30 s)",
                "signature": "C11:unroll-huge-count",
                "replay": {"text": 'a = { "x"{99999999} }', "what": pr, "signature": "unroll-huge-count"}})
    # the front-end MODEL (coq/Front.v: scanner, parser, unescape; FrontProof.front_total) vs from_grammar on the
    # same texts and on the edge texts it was developed against: exact rule tables / error positions
    import frontmodel
    from front_edge_cases import EDGES
    ft = sorted(set(texts) | set(EDGES))
    parts = [ft[i::NCPU] for i in range(NCPU)]
    compared = outside = 0
    with ctx.Pool(NCPU) as pool:
        for c, o, bad in pool.imap_unordered(frontmodel.tie, parts):
            compared += c
            outside += o
            res.tie_breaks.extend(bad)
    res.extra["front_model_tie"] = {"texts_compared": compared, "outside_model_recursion_limit": outside}
    res.evaluations = n_total * (2 if want11 else 1) + compared
    res.distinct_nontrivial = len(set(texts))
    res.extra["distribution"] = dist
    res.rule = ("grammar texts: random grammar ASTs printed with every syntactic form of meta.pest (stacked postfix "
                "operators, &! chains, tags, PEEK slices, every escape form, keyword-prefixed identifiers, docs) and "
                "random whitespace/comment placement; the bundled .pest files; single-character/token mutations and "
                "truncations of all of these; token soups; hand-picked edge texts. "
                + ("C10: accept/reject and the built rule table vs the reference reader (extracted semantics running "
                   "tests/grammars/meta.pest + denote)." if want10 else
                   "C11: exception type escaping from_grammar with and without optimizer, str() of the error, and the "
                   "line/column it reports existing in the text.")
                + " Every text is also run through the extracted front-end model (Front.v) and compared exactly "
                  "(rule table with modifiers, docs and tags, or error position)."
                + " distinct_nontrivial = distinct texts.")
    res.samples = [t[:120] for t in texts[20:24]]
    return res
