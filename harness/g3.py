"""G3: the bundled grammars with corpora harvested from the repository itself.

(rule, input) samples are read from tests/test_*.py with `ast` (calls of the form
parser.parse("<rule>", "<input>")), example files are parsed with the grammar's top rule,
and seeded mutations (delete / replace / duplicate / truncate) probe the reject side.
"""

from __future__ import annotations

import ast
import os
import random
import re

from common import REPO

# grammar file -> (test module that exercises it, [(top rule, example file)])
BUNDLED = {
    "tests/grammars/grammar.pest": ("tests/test_grammar.py", []),
    "tests/grammars/http.pest": ("tests/test_http_grammar.py", [("http", "tests/examples/example.http")]),
    "tests/grammars/json.pest": ("tests/test_json_grammar.py", [("json", "tests/examples/example.json")]),
    "tests/grammars/lists.pest": ("tests/test_lists_grammar.py", []),
    "tests/grammars/reporting.pest": ("tests/test_reporting.py", []),
    "tests/grammars/sql.pest": ("tests/test_sql_grammar.py", []),
    "tests/grammars/surround.pest": ("tests/test_surround_grammar.py", []),
    "tests/grammars/toml.pest": ("tests/test_toml_grammar.py", [("toml", "tests/examples/example.toml")]),
    "examples/json/json.pest": (None, [("json", "examples/json/example.json")]),
    "examples/calculator/calculator.pest": ("tests/test_calculator_examples.py", []),
    "examples/calculator/grammar_encoded_prec.pest": ("tests/test_calculator_examples.py", []),
    "examples/csv/csv.pest": (None, [("file", "examples/csv/example.csv")]),
    "examples/ini/ini.pest": (None, [("file", "examples/ini/example.ini")]),
    "examples/jsonpath/jsonpath.pest": (None, []),
}

EXTRA_INPUTS = {
    "examples/calculator/calculator.pest": [("program", s) for s in (
        "1 + 2 * 3", "-x ^ 2 !", "(1 + 2) * 3 - 4 / 5", "2 ^ 3 ^ 2", "a", "1 +", "((1))", "1 2", "3!!", "- - 1")],
    "examples/calculator/grammar_encoded_prec.pest": [("program", s) for s in (
        "1 + 2 * 3", "-x ^ 2 !", "(1 + 2) * 3 - 4 / 5", "2 ^ 3 ^ 2", "a", "1 +", "((1))", "1 2", "3!!", "- - 1")],
    "examples/jsonpath/jsonpath.pest": [("jsonpath", s) for s in (
        "$", "$.a.b", "$['a']", "$[0]", "$[1:2:3]", "$..a", "$.*", "$[?@.a == 1]", "$[?@.a && !@.b]",
        "$[?length(@.a) > 2]", "$[?match(@.a, 'x.*')]", "$.a[", "$[?(@.a)]", "$['\\u0041']", "$[-1]", "$ .a")],
}


def _read(path: str) -> str:
    return open(os.path.join(REPO, path), encoding="utf-8").read()


def harvest(test_module: str) -> list[tuple[str, str]]:
    out: list[tuple[str, str]] = []
    try:
        tree = ast.parse(_read(test_module))
    except (OSError, SyntaxError):
        return out
    for node in ast.walk(tree):
        if isinstance(node, ast.Call) and isinstance(node.func, ast.Attribute) and node.func.attr == "parse" \
                and len(node.args) >= 2 and all(isinstance(a, ast.Constant) and isinstance(a.value, str)
                                                for a in node.args[:2]):
            out.append((node.args[0].value, node.args[1].value))
    return out


def mutate(rng: random.Random, text: str, alphabet: str) -> str:
    if not text:
        return rng.choice(alphabet)
    i = rng.randrange(len(text))
    op = rng.randrange(5)
    if op == 0:
        return text[:i] + text[i + 1:]
    if op == 1:
        return text[:i] + rng.choice(alphabet) + text[i + 1:]
    if op == 2:
        return text[:i] + text[i] + text[i:]
    if op == 3:
        return text[:i]
    return text[:i] + rng.choice(alphabet) + text[i:]


def rule_names(grammar_text: str) -> list[str]:
    return re.findall(r"^\s*([A-Za-z_][A-Za-z0-9_]*)\s*=\s*[_@$!]?\s*\{", grammar_text, re.M)


def g3_cases(seed: int, mutations: int = 4, max_example: int = 1500, only: list[str] | None = None) -> list[dict]:
    rng = random.Random(seed)
    cases = []
    for gpath, (tmod, examples) in BUNDLED.items():
        if only and gpath not in only:
            continue
        try:
            gtext = _read(gpath)
        except OSError:
            continue
        names = set(rule_names(gtext))
        samples: list[tuple[str, str]] = []
        if tmod:
            samples += [(r, t) for r, t in harvest(tmod) if r in names]
        samples += [(r, t) for r, t in EXTRA_INPUTS.get(gpath, []) if r in names]
        for rule, epath in examples:
            try:
                txt = _read(epath)
            except OSError:
                continue
            if rule in names:
                samples.append((rule, txt[:max_example] if len(txt) > max_example else txt))
        # dedupe, group by rule
        by_rule: dict[str, list[str]] = {}
        for r, t in samples:
            by_rule.setdefault(r, [])
            if t not in by_rule[r]:
                by_rule[r].append(t)
        for r, texts in sorted(by_rule.items()):
            alphabet = "".join(sorted(set("".join(texts)) | set(" a1\n"))) or "a"
            inputs = list(texts)
            for t in texts:
                for _ in range(mutations):
                    m = mutate(rng, t, alphabet)
                    if m not in inputs:
                        inputs.append(m)
            cases.append({
                "family": "G3",
                "label": f"{gpath} rule {r}",
                "grammar": gtext,
                "gpath": gpath,
                "rules": [r],
                "inputs": inputs,
                "starts": "zero",
            })
    return cases
