#!/bin/sh
# thorough_all.sh: run every check in the thorough tier once, sequentially; keeps the quick-tier evidence in place and
# stores the thorough evidence under evidence/thorough/. Prints one line per check.
cd /verif || exit 2
mkdir -p evidence/thorough
EVBAK=$(mktemp -d); cp evidence/*.json "$EVBAK"/
for P in ${*:-C01 C02 C03 C04 C05 C06 C07 C08 C09 C10 C11 C12 C13 C14 C15 C16 C17 C18}; do
  T0=$(date +%s)
  OUT=$(timeout 5400 ./check "$P" --tier thorough 2>&1 | grep -E "^(VIOLATION|OK|KNOWN)" | head -3 | tr '\n' ';')
  T1=$(date +%s)
  [ -f "evidence/$P.json" ] && cp "evidence/$P.json" "evidence/thorough/$P.json"
  echo "$P $((T1-T0))s $OUT"
done
cp "$EVBAK"/*.json evidence/; rm -rf "$EVBAK"
