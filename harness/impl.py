"""Running the implementation (current working tree of /repo) in its four execution modes
and canonicalising what it returns."""

from __future__ import annotations

import signal
import sys

from pest import Parser
from pest.exceptions import PestParsingError
from pest.grammar.optimizer import DEFAULT_OPTIMIZER_PASSES, Optimizer

from export import Symbols

sys.setrecursionlimit(3000)

MODES = ("I", "O", "IG", "OG")


class Timeout(Exception):
    pass


def _alarm(_sig, _frm):
    raise Timeout()


signal.signal(signal.SIGALRM, _alarm)


def with_timeout(seconds, fn, *args):
    if seconds is None:          # no timer (calls made from threads)
        return fn(*args)
    signal.setitimer(signal.ITIMER_REAL, seconds)
    try:
        return fn(*args)
    finally:
        signal.setitimer(signal.ITIMER_REAL, 0)


def fresh_optimizer(passes=None) -> Optimizer:
    return Optimizer(list(DEFAULT_OPTIMIZER_PASSES) if passes is None else list(passes))


class Built:
    """A grammar loaded in the four modes. Any construction failure is recorded per mode."""

    def __init__(self, grammar: str, passes=None, modes=MODES) -> None:
        self.grammar = grammar
        self.err: dict[str, str] = {}
        self.parsers: dict[str, object] = {}
        self.sources: dict[str, str] = {}
        for mode in modes:
            try:
                if mode in ("I", "IG"):
                    p = Parser.from_grammar(grammar, optimizer=None)
                else:
                    p = Parser.from_grammar(grammar, optimizer=fresh_optimizer(passes))
                if mode in ("IG", "OG"):
                    src = p.generate()
                    self.sources[mode] = src
                    ns: dict[str, object] = {"__name__": "generated_" + mode}
                    exec(compile(src, f"<generated {mode}>", "exec"), ns)  # noqa: S102
                    self.parsers[mode] = ns["parse"]
                    self.parsers[mode + ":parser"] = p
                else:
                    self.parsers[mode] = p
            except Timeout:
                raise
            except Exception as e:  # noqa: BLE001
                self.err[mode] = type(e).__name__

    def run(self, mode: str, rule: str, text: str, k: int = 0, timeout: float = 2.0):
        """-> ('OK', tree) | ('FAIL', pos, expected names, unexpected names) | ('EXC', type)."""
        if mode in self.err:
            return ("BUILD", self.err[mode])
        p = self.parsers[mode]
        try:
            if mode in ("I", "O"):
                pairs = with_timeout(timeout, lambda: p.parse(rule, text, start_pos=k))
            else:
                pairs = with_timeout(timeout, lambda: p(rule, text, start_pos=k))
        except PestParsingError as e:
            st = e.state
            return ("FAIL", st.furthest_pos, tuple(sorted(st.furthest_expected)),
                    tuple(sorted(st.furthest_unexpected)))
        except Timeout:
            # a stalled worker process must not look like a hang of the parser: try once
            # more with a much longer limit before calling it a timeout
            if timeout is not None and timeout < 15.0:
                return self.run(mode, rule, text, k, timeout=20.0)
            return ("EXC", "Timeout")
        except RecursionError:
            return ("EXC", "RecursionError")
        except Exception as e:  # noqa: BLE001
            return ("EXC", type(e).__name__)
        return ("OK", tuple(tree_of(pr) for pr in pairs), pairs)


def tree_of(pair) -> tuple:
    return (pair.name, pair.start, pair.end, pair.tag, tuple(tree_of(c) for c in pair.children))


def render_tree(t: tuple, syms: Symbols) -> str:
    name, s, e, tag, kids = t
    tg = "_" if tag is None else str(syms.tag(tag))
    inner = "".join(" " + render_tree(c, syms) for c in kids)
    return f"({syms.rule(name)} {s} {e} {tg}{inner})"


def render(res: tuple, syms: Symbols, with_sets: bool = True) -> str:
    """Implementation result in the wire format of the OCaml driver."""
    if res[0] == "OK":
        return "OK" + "".join(" " + render_tree(t, syms) for t in res[1])
    if res[0] == "FAIL":
        if not with_sets:
            return f"FAIL {res[1]}"
        exp = ",".join(str(i) for i in sorted(syms.rule(n) for n in res[2]))
        un = ",".join(str(i) for i in sorted(syms.rule(n) for n in res[3]))
        return f"FAIL {res[1]} {exp} ; {un}"
    if res[0] == "EXC":
        return "EXC " + res[1]
    return "BUILD " + res[1]


def strip_sets(line: str) -> str:
    """'FAIL p a,b ; c' -> 'FAIL p' (comparison of the failure position only)."""
    if line.startswith("FAIL "):
        return "FAIL " + line.split()[1]
    return line


def outcome(line: str) -> str:
    """success/failure + tree, without failure details."""
    if line.startswith("FAIL"):
        return "FAIL"
    return line
