"""C14 / C13: Position, Span, line_of, error_context vs the extracted model (coq/LineCol.v) and
vs the property's arithmetic, exhaustively at small scope."""

from __future__ import annotations

import itertools
import multiprocessing as mp
import random

from common import NCPU, Driver

_drv = None


def _init():
    global _drv
    _drv = Driver()


def cps(t: str) -> str:
    return " ".join(str(ord(c)) for c in t)


def dots(t: str) -> str:
    return ".".join(str(ord(c)) for c in t)


_PAIR_PARSER = None


def pair_problem(text: str):
    """Pair.line_col() / Pair.span() of REAL pairs at every offset 0..len (file = { SOI ~ ch* ~ EOI }, ch = { ANY }:
    one ch pair per character, the EOI pair at len) against Position.line_col() of the pair's start."""
    global _PAIR_PARSER
    from pest import Parser
    from pest.pairs import Position
    if _PAIR_PARSER is None:
        _PAIR_PARSER = Parser.from_grammar("file = { SOI ~ ch* ~ EOI }\nch = { ANY }\n", optimizer=None)
    try:
        pairs = _PAIR_PARSER.parse("file", text)
    except Exception as e:  # noqa: BLE001
        return f"parse of {text!r} raised {type(e).__name__}"
    for pr in pairs.flatten():
        want = Position(text, pr.start).line_col()
        got = pr.line_col()
        if got != want:
            return (f"Pair({pr.name!r}, {pr.start}..{pr.end}).line_col() = {got} in {text!r}, "
                    f"Position.line_col() of its start is {want}")
        sp = pr.span()
        if (sp.start, sp.end) != (pr.start, pr.end) or str(sp) != text[pr.start:pr.end]:
            return f"Pair({pr.name!r}, {pr.start}..{pr.end}).span() is {sp.start}..{sp.end} in {text!r}"
    return None


def impl_render(text: str):
    """Same wire format as the driver's L command, computed from the implementation;
    also checks the property's arithmetic directly (for \\n-only texts)."""
    from pest.pairs import Position, Span
    n = len(text)
    problem = None
    out = []
    nl_only = not any(c in "\r\x0b\x0c\x1c\x1d\x1e\x85  " for c in text)
    for p in range(n + 1):
        pos = Position(text, p)
        l, c = pos.line_col()
        lo = pos.line_of()
        if nl_only and problem is None:
            want = (1 + text.count("\n", 0, p), 1 + p - (text.rfind("\n", 0, p) + 1))
            if (l, c) != want:
                problem = f"Position({text!r},{p}).line_col() = {(l, c)}, expected {want}"
            else:
                lines = text.split("\n")
                wl = lines[want[0] - 1] + ("\n" if want[0] - 1 < len(lines) - 1 else "")
                if lo != wl:
                    problem = f"Position({text!r},{p}).line_of() = {lo!r}, expected {wl!r}"
        out.append(f"{l},{c},{dots(lo)};")
    out.append("|")
    for a in range(n + 1):
        for b in range(a, n + 1):
            sp = Span(text, a, b)
            ls = sp.lines()
            if problem is None:
                if str(sp) != text[a:b] or sp.as_str() != text[a:b]:
                    problem = f"str(Span({text!r},{a},{b})) != text[{a}:{b}]"
                elif sp.start_pos() != Position(text, a) or sp.end_pos() != Position(text, b) \
                        or sp.split() != (Position(text, a), Position(text, b)):
                    problem = f"Span({text!r},{a},{b}).start_pos/end_pos/split inconsistent"
                elif nl_only:
                    la = 1 + text.count("\n", 0, a)
                    lb = 1 + text.count("\n", 0, b)
                    all_lines = text.splitlines(keepends=True)
                    want = all_lines[la - 1:lb]
                    if ls != want:
                        problem = f"Span({text!r},{a},{b}).lines() = {ls!r}, expected {want!r}"
            out.append("/".join(dots(x) for x in ls) + ";")
    return "".join(out), problem


def chunk(texts):
    bad = []
    lines = []
    impls = []
    for t in texts:
        try:
            r, problem = impl_render(t)
        except Exception as e:  # noqa: BLE001
            bad.append({"kind": "property", "text": t, "what": f"{type(e).__name__}: {e}"})
            continue
        if problem is None:
            problem = pair_problem(t)
        if problem:
            bad.append({"kind": "property", "text": t, "what": problem})
            continue
        lines.append("L " + cps(t))
        impls.append((t, r))
    outs = _drv.ask_many(lines) if lines else []
    for (t, r), m in zip(impls, outs):
        if r != m:
            bad.append({"kind": "tie", "text": t, "impl": r[:300], "model": m[:300]})
    return len(texts), bad


def ec_chunk(items):
    """error_context(text, index) vs the model, and vs line_col."""
    from pest.exceptions import error_context
    from pest.pairs import Position
    bad = []
    lines = []
    impls = []
    for t, i in items:
        try:
            line, ln, col = error_context(t, i)
        except Exception as e:  # noqa: BLE001
            bad.append({"kind": "property", "text": t, "index": i, "what": f"error_context raised {type(e).__name__}"})
            continue
        if line != Position(t, i).line_of().rstrip():
            bad.append({"kind": "property", "text": t, "index": i,
                        "what": f"error_context({t!r},{i}) shows the source line {line!r}, the line containing the "
                                f"position is {Position(t, i).line_of().rstrip()!r}"})
            continue
        if (ln, col) != Position(t, i).line_col():
            bad.append({"kind": "property", "text": t, "index": i,
                        "what": f"error_context({t!r},{i}) reports {ln}:{col}, line_col is {Position(t, i).line_col()}"})
            continue
        lines.append(f"E {i} " + cps(t))
        impls.append((t, i, f"{dots(line)}|{ln}|{col}"))
    outs = _drv.ask_many(lines) if lines else []
    for (t, i, r), m in zip(impls, outs):
        if r != m:
            bad.append({"kind": "tie", "text": t, "index": i, "impl": r, "model": m})
    return len(items), bad


def chunks(it, size):
    buf = []
    for x in it:
        buf.append(x)
        if len(buf) >= size:
            yield buf
            buf = []
    if buf:
        yield buf


def small_texts(alphabet: str, maxlen: int):
    for n in range(maxlen + 1):
        for tup in itertools.product(alphabet, repeat=n):
            yield "".join(tup)


def sampled_texts(rng: random.Random, n: int):
    pool = "ab \n\n\nxyz\r\té中\U0001F600 \x0b\x85"
    for _ in range(n):
        L = rng.randint(0, 14)
        yield "".join(rng.choice(pool) for _ in range(L))


def check(prop: str, tier: str, seed: int):
    from checks import Result
    res = Result()
    maxlen = 8 if tier == "thorough" else 7
    rng = random.Random(seed)
    texts = list(small_texts("ab\n", maxlen))
    extra = list(sampled_texts(rng, 3000 if tier == "thorough" else 600))
    crlf = list(small_texts("a\n\r", 5))
    total = 0
    ctx = mp.get_context("fork")
    with ctx.Pool(NCPU, initializer=_init) as pool:
        if prop == "C14":
            for n, bad in pool.imap_unordered(chunk, chunks(texts + crlf + extra, 60)):
                total += n
                for b in bad:
                    _add(res, b)
            res.evaluations = sum((len(t) + 1) * (len(t) + 4) // 2 + len(t) + 1 for t in texts + crlf + extra)
            res.distinct_nontrivial = sum(1 for t in texts if "\n" in t)
            res.exhaustive = True
            res.rule = (f"ALL texts over {{a, b, \\n}} up to length {maxlen} ({len(texts)} texts) plus all texts over "
                        f"{{a, \\n, \\r}} up to length 5 and {len(extra)} seeded non-ASCII / other-line-break texts; "
                        "for every offset 0..len: Position.line_col, line_of; for every span a<=b: Span.lines, str, "
                        "start_pos/end_pos/split, Pair.line_col / Pair.span of real pairs at every offset, compared with the extracted Coq model (LineCol.v) and, for \\n-only "
                        "texts, with the property's arithmetic written out independently. evaluations = offset and "
                        "span queries; non-trivial = exhaustive texts containing a line break.")
            res.samples = ["'ab' p=2 -> (1,3)", "'a\\n' p=2 -> (2,1)", "'' p=0 -> (1,1)", "'a\\r\\nb' p=3 -> (2,1)"]
        else:
            items = [(t, i) for t in texts[:3280] + crlf + extra for i in range(0, len(t) + 1)]
            for n, bad in pool.imap_unordered(ec_chunk, chunks(items, 400)):
                total += n
                for b in bad:
                    _add(res, b)
            res.evaluations = total
            res.distinct_nontrivial = sum(1 for t, i in items if "\n" in t)
            res.rule = "error_context(text, index) for all small texts x all offsets vs the extracted model and line_col"
            res.samples = ["error_context('a\\n', 2) -> ('', 2, 1)"]
    return res


def _add(res, b):
    if b["kind"] == "tie":
        res.tie_breaks.append(b)
    else:
        res.violations.append({"what": b["what"], "replay": b})
